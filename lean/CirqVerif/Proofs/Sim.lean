import CirqVerif.Model.Sim
import CirqVerif.Proofs.Tensor
/-! The array interpreter computes the reference semantics (refinement, every shape and circuit). -/
namespace CirqVerif

/-- a digit list is a valid basis index of a register with the given per-axis dimensions -/
def ValidIdx : List Nat → Idx → Prop
  | [], [] => True
  | d :: ds, x :: xs => x < d ∧ ValidIdx ds xs
  | _, _ => False

theorem ValidIdx.length_eq : ∀ {shape : List Nat} {idx : Idx}, ValidIdx shape idx → idx.length = shape.length
  | [], [], _ => rfl
  | _ :: _, _ :: _, h => by simp [ValidIdx.length_eq h.2]
  | [], _ :: _, h => by simp [ValidIdx] at h
  | _ :: _, [], h => by simp [ValidIdx] at h

theorem shapeSize_cons (d : Nat) (ds : List Nat) : shapeSize (d :: ds) = d * shapeSize ds := rfl

theorem flatIndex_lt {shape : List Nat} {idx : Idx} (h : ValidIdx shape idx) :
    flatIndex shape idx < shapeSize shape := by
  induction shape generalizing idx with
  | nil => cases idx <;> simp_all [ValidIdx, flatIndex, shapeSize]
  | cons d ds ih => cases idx with
    | nil => simp [ValidIdx] at h
    | cons x xs =>
      have := ih h.2
      have hx := h.1
      simp only [flatIndex, shapeSize_cons]
      change x * shapeSize ds + flatIndex ds xs < d * shapeSize ds
      calc x * shapeSize ds + flatIndex ds xs < x * shapeSize ds + shapeSize ds := by omega
        _ = (x + 1) * shapeSize ds := by rw [Nat.add_mul]; omega
        _ ≤ d * shapeSize ds := Nat.mul_le_mul_right _ hx

theorem unflatten_flatIndex {shape : List Nat} {idx : Idx} (h : ValidIdx shape idx) :
    unflatten shape (flatIndex shape idx) = idx := by
  induction shape generalizing idx with
  | nil => cases idx <;> simp_all [ValidIdx, unflatten]
  | cons d ds ih => cases idx with
    | nil => simp [ValidIdx] at h
    | cons x xs =>
      have hlt := flatIndex_lt h.2
      have hpos : 0 < shapeSize ds := by omega
      simp only [flatIndex, unflatten]
      change ((x * shapeSize ds + flatIndex ds xs) / shapeSize ds) ::
        unflatten ds ((x * shapeSize ds + flatIndex ds xs) % shapeSize ds) = x :: xs
      rw [Nat.mul_comm x, Nat.mul_add_div hpos, Nat.mul_add_mod, Nat.div_eq_of_lt hlt,
        Nat.mod_eq_of_lt hlt, ih h.2]
      simp

section
variable {R : Type} [Add R] [Mul R] [OfNat R 0] [Inhabited R]

/-- reading back a materialised state gives the state, on every valid index -/
theorem stateOfArray_materialize (shape : List Nat) (ψ : State R) (idx : Idx) (h : ValidIdx shape idx) :
    stateOfArray shape (materialize shape ψ) idx = ψ idx := by
  unfold stateOfArray materialize
  have hlt := flatIndex_lt h
  simp [Array.getD, hlt, unflatten_flatIndex h]

end

theorem validIdx_set {shape : List Nat} {idx : Idx} (h : ValidIdx shape idx) (a v : Nat)
    (hv : v < shape.getD a 1) : ValidIdx shape (idx.set a v) := by
  induction shape generalizing idx a with
  | nil => cases idx <;> simp_all [ValidIdx]
  | cons d ds ih => cases idx with
    | nil => simp [ValidIdx] at h
    | cons x xs =>
      cases a with
      | zero => exact ⟨by simpa using hv, h.2⟩
      | succ a => exact ⟨h.1, ih h.2 a (by simpa using hv)⟩

theorem validIdx_setAxes {shape : List Nat} {idx : Idx} (h : ValidIdx shape idx) (axes b : List Nat)
    (hb : ValidIdx (axes.map (fun a => shape.getD a 1)) b) : ValidIdx shape (setAxes idx axes b) := by
  induction axes generalizing idx b with
  | nil => simp [setAxes]; exact h
  | cons a as ih => cases b with
    | nil => simp [setAxes]; exact h
    | cons x xs =>
      simp only [List.map_cons, ValidIdx] at hb
      exact ih (validIdx_set h a x hb.1) xs hb.2

theorem allIdx_valid (dims : List Nat) : ∀ b ∈ allIdx dims, ValidIdx dims b := by
  induction dims with
  | nil => simp [allIdx, ValidIdx]
  | cons d ds ih =>
    intro b hb
    simp only [allIdx, List.mem_flatMap, List.mem_map, List.mem_range] at hb
    obtain ⟨x, hx, c, hc, rfl⟩ := hb
    exact ⟨hx, ih c hc⟩

section
variable {R : Type} [Add R] [Mul R] [OfNat R 0]

/-- `applyOp` at a valid index only looks at the input state on valid indices -/
theorem applyOp_congr_valid (shape : List Nat) (U : Mat R) (axes : List Nat) (ψ φ : State R)
    (hψ : ∀ i, ValidIdx shape i → ψ i = φ i) (idx : Idx) (h : ValidIdx shape idx) :
    applyOp U (axes.map (fun a => shape.getD a 1)) axes ψ idx
      = applyOp U (axes.map (fun a => shape.getD a 1)) axes φ idx := by
  unfold applyOp sumL
  have : ∀ (l : List Idx), (∀ b ∈ l, ValidIdx (axes.map (fun a => shape.getD a 1)) b) →
      l.foldr (fun b acc => U (getAxes idx axes) b * ψ (setAxes idx axes b) + acc) 0
        = l.foldr (fun b acc => U (getAxes idx axes) b * φ (setAxes idx axes b) + acc) 0 := by
    intro l
    induction l with
    | nil => intro _; rfl
    | cons x xs ih =>
      intro hl
      simp only [List.foldr_cons]
      rw [ih (fun b hb => hl b (by simp [hb])), hψ _ (validIdx_setAxes h axes x (hl x (by simp)))]
  exact this _ (allIdx_valid _)

variable [Inhabited R]

/-- **Refinement**: running the array interpreter and reading the result back equals the reference
semantics `applyOps` of the same operations, on every valid basis index, for every register shape
(qubits and qudits), every circuit and every initial array. -/
theorem runArr_refines (shape : List Nat) (ops : List (ArrOp R)) (arr : Array R) (idx : Idx)
    (h : ValidIdx shape idx) :
    stateOfArray shape (runArr shape arr ops) idx
      = applyOps (ops.map (fun op =>
          (matOfArray (op.axes.map (fun a => shape.getD a 1)) op.matrix,
           op.axes.map (fun a => shape.getD a 1), op.axes))) (stateOfArray shape arr) idx := by
  unfold runArr applyOps
  suffices hgen : ∀ (ops : List (ArrOp R)) (arr : Array R) (ψ : State R),
      (∀ i, ValidIdx shape i → stateOfArray shape arr i = ψ i) → ∀ idx, ValidIdx shape idx →
      stateOfArray shape (ops.foldl (stepArr shape) arr) idx
        = (ops.map (fun op =>
          (matOfArray (op.axes.map (fun a => shape.getD a 1)) op.matrix,
           op.axes.map (fun a => shape.getD a 1), op.axes))).foldl
            (fun ψ op => applyOp op.1 op.2.1 op.2.2 ψ) ψ idx from
    hgen ops arr _ (fun _ _ => rfl) idx h
  intro ops
  induction ops with
  | nil => intro arr ψ hψ idx hidx; exact hψ idx hidx
  | cons op ops ih =>
    intro arr ψ hψ idx hidx
    simp only [List.foldl_cons, List.map_cons]
    refine ih _ _ ?_ idx hidx
    intro i hi
    unfold stepArr
    simp only
    rw [stateOfArray_materialize shape _ i hi]
    exact applyOp_congr_valid shape _ op.axes _ _ hψ i hi

end
end CirqVerif
