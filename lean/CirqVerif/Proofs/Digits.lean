import CirqVerif.Base.Digits
/-! Lemmas about the digits model (all widths, all mixed radices). -/
namespace CirqVerif.Digits

/-- Specification: big-endian Horner value of a digit list under per-digit bases. -/
def horner : List Nat → List Nat → Nat → Nat
  | d :: ds, b :: bs, acc => horner ds bs (acc * b + d)
  | _, _, acc => acc

theorem digitsToIntLoop_ok (ds bs : List Nat) (acc : Nat)
    (hlen : ds.length = bs.length) (hr : ∀ p ∈ ds.zip bs, p.1 < p.2) :
    digitsToIntLoop (ds.map Int.ofNat) (bs.map Int.ofNat) acc = .ok (horner ds bs acc : Nat) := by
  induction ds generalizing bs acc with
  | nil => cases bs <;> simp [digitsToIntLoop, horner]
  | cons d ds ih =>
    cases bs with
    | nil => simp at hlen
    | cons b bs =>
      have hd : d < b := hr (d, b) (by simp)
      simp only [List.map_cons, digitsToIntLoop, horner]
      have : (0 : Int) ≤ Int.ofNat d ∧ Int.ofNat d < Int.ofNat b := by
        constructor
        · exact Int.natCast_nonneg d
        · exact Int.ofNat_lt.mpr hd
      rw [if_pos this]
      have h2 := ih bs (acc * b + d) (by simpa using hlen)
        (fun p hp => hr p (by simp [List.zip_cons_cons, hp]))
      rw [← h2]; congr 1

end CirqVerif.Digits

namespace CirqVerif.Digits

/-- little-endian value -/
def leValue : List Nat → List Nat → Nat
  | d :: ds, b :: bs => d + b * leValue ds bs
  | _, _ => 0

def prod (bs : List Nat) : Nat := bs.foldr (· * ·) 1

@[simp] theorem prod_nil : prod [] = 1 := rfl
@[simp] theorem prod_cons (b : Nat) (bs : List Nat) : prod (b :: bs) = b * prod bs := rfl
theorem prod_append (as bs : List Nat) : prod (as ++ bs) = prod as * prod bs := by
  induction as with
  | nil => simp
  | cons a as ih => simp [ih, Nat.mul_assoc]
theorem prod_reverse (bs : List Nat) : prod bs.reverse = prod bs := by
  induction bs with
  | nil => rfl
  | cons b bs ih => simp [prod_append, ih, Nat.mul_comm]
theorem prod_pos (bs : List Nat) (h : ∀ b ∈ bs, 0 < b) : 0 < prod bs := by
  induction bs with
  | nil => simp
  | cons b bs ih =>
    simp only [prod_cons]
    exact Nat.mul_pos (h b (by simp)) (ih (fun x hx => h x (by simp [hx])))

/-- In-range predicate: equal lengths and every digit below its base. -/
def InRange : List Nat → List Nat → Prop
  | [], [] => True
  | d :: ds, b :: bs => d < b ∧ InRange ds bs
  | _, _ => False

theorem InRange.length_eq : ∀ {ds bs : List Nat}, InRange ds bs → ds.length = bs.length
  | [], [], _ => rfl
  | _ :: _, _ :: _, h => by simp [InRange.length_eq h.2]
  | [], _ :: _, h => by simp [InRange] at h
  | _ :: _, [], h => by simp [InRange] at h

theorem InRange.append {ds bs : List Nat} {d b : Nat} (h : InRange ds bs) (hd : d < b) :
    InRange (ds ++ [d]) (bs ++ [b]) := by
  induction ds generalizing bs with
  | nil => cases bs <;> simp_all [InRange]
  | cons x xs ih => cases bs with
    | nil => simp [InRange] at h
    | cons y ys => exact ⟨h.1, ih h.2⟩

theorem InRange.reverse {ds bs : List Nat} (h : InRange ds bs) : InRange ds.reverse bs.reverse := by
  induction ds generalizing bs with
  | nil => cases bs <;> simp_all [InRange]
  | cons x xs ih => cases bs with
    | nil => simp [InRange] at h
    | cons y ys => simp only [List.reverse_cons]; exact (ih h.2).append h.1

theorem leValue_lt {ds bs : List Nat} (h : InRange ds bs) : leValue ds bs < prod bs := by
  induction ds generalizing bs with
  | nil => cases bs <;> simp_all [InRange, leValue]
  | cons d ds ih => cases bs with
    | nil => simp [InRange] at h
    | cons b bs =>
      have := ih h.2
      have hd := h.1
      simp only [leValue, prod_cons]
      calc d + b * leValue ds bs < b + b * leValue ds bs := by omega
        _ = b * (leValue ds bs + 1) := by rw [Nat.mul_add]; omega
        _ ≤ b * prod bs := Nat.mul_le_mul_left b this

/-- The division loop: digits in range, and value = leValue + remainder * prod. -/
theorem intToDigitsLoop_spec (bs : List Nat) (v : Nat) (hb : ∀ b ∈ bs, 0 < b) :
    ∃ ds r, intToDigitsLoop bs v = .ok (ds, r) ∧ InRange ds bs ∧ leValue ds bs + prod bs * r = v := by
  induction bs generalizing v with
  | nil => exact ⟨[], v, rfl, trivial, by simp [leValue]⟩
  | cons b bs ih =>
    have hb0 : 0 < b := hb b (by simp)
    obtain ⟨ds, r, h1, h2, h3⟩ := ih (v / b) (fun x hx => hb x (by simp [hx]))
    refine ⟨v % b :: ds, r, ?_, ⟨Nat.mod_lt _ hb0, h2⟩, ?_⟩
    · simp [intToDigitsLoop, h1, Nat.ne_of_gt hb0]
    · simp only [leValue, prod_cons]
      have : b * (leValue ds bs + prod bs * r) = b * (v / b) := by rw [h3]
      have hdm := Nat.mod_add_div v b
      rw [Nat.mul_add] at this
      rw [Nat.mul_assoc]; omega

theorem intToDigitsLoop_zero (bs : List Nat) (v : Nat) (h : 0 ∈ bs) :
    ∃ e, intToDigitsLoop bs v = .error e := by
  induction bs generalizing v with
  | nil => simp at h
  | cons b bs ih =>
    by_cases hb : b = 0
    · exact ⟨.zeroDiv, by simp [intToDigitsLoop, hb]⟩
    · have : 0 ∈ bs := by
        rcases List.mem_cons.mp h with h | h
        · exact absurd h.symm hb
        · exact h
      obtain ⟨e, he⟩ := ih (v / b) this
      exact ⟨e, by simp [intToDigitsLoop, hb, he]⟩

/-- uniqueness of mixed-radix representation (little endian) -/
theorem leValue_inj {ds ds' bs : List Nat} (h : InRange ds bs) (h' : InRange ds' bs)
    (e : leValue ds bs = leValue ds' bs) : ds = ds' := by
  induction ds generalizing ds' bs with
  | nil =>
    cases bs with
    | nil => cases ds' <;> simp_all [InRange]
    | cons _ _ => simp [InRange] at h
  | cons d ds ih =>
    cases bs with
    | nil => simp [InRange] at h
    | cons b bs =>
      cases ds' with
      | nil => simp [InRange] at h'
      | cons d' ds' =>
        simp only [leValue] at e
        have hd := h.1; have hd' := h'.1
        have e1 : (d + b * leValue ds bs) % b = (d' + b * leValue ds' bs) % b := by rw [e]
        rw [Nat.add_mul_mod_self_left, Nat.add_mul_mod_self_left,
          Nat.mod_eq_of_lt hd, Nat.mod_eq_of_lt hd'] at e1
        subst e1
        have hb : 0 < b := by omega
        have e2 : leValue ds bs = leValue ds' bs :=
          Nat.eq_of_mul_eq_mul_left hb (by omega)
        rw [ih h.2 h'.2 e2]

theorem horner_acc (ds bs : List Nat) (acc : Nat) (hl : ds.length = bs.length) :
    horner ds bs acc = acc * prod bs + horner ds bs 0 := by
  induction ds generalizing bs acc with
  | nil => cases bs <;> simp_all [horner]
  | cons d ds ih => cases bs with
    | nil => simp at hl
    | cons b bs =>
      have hl' : ds.length = bs.length := by simpa using hl
      simp only [horner, prod_cons]
      rw [ih bs (acc * b + d) hl', ih bs (0 * b + d) hl']
      simp [Nat.add_mul, Nat.mul_assoc]; omega

theorem leValue_append (ds bs : List Nat) (d b : Nat) (hl : ds.length = bs.length) :
    leValue (ds ++ [d]) (bs ++ [b]) = leValue ds bs + prod bs * d := by
  induction ds generalizing bs with
  | nil => cases bs <;> simp_all [leValue]
  | cons x xs ih => cases bs with
    | nil => simp at hl
    | cons y ys =>
      have hl' : xs.length = ys.length := by simpa using hl
      simp only [List.cons_append, leValue, prod_cons, ih ys hl', Nat.mul_add, Nat.mul_assoc]
      omega

theorem horner_eq_leValue (ds bs : List Nat) (hl : ds.length = bs.length) :
    horner ds bs 0 = leValue ds.reverse bs.reverse := by
  induction ds generalizing bs with
  | nil => cases bs <;> simp_all [horner, leValue]
  | cons d ds ih => cases bs with
    | nil => simp at hl
    | cons b bs =>
      have hl' : ds.length = bs.length := by simpa using hl
      simp only [horner, List.reverse_cons]
      rw [horner_acc _ _ _ hl', leValue_append _ _ _ _ (by simpa using hl'), ih bs hl',
        prod_reverse]
      simp [Nat.mul_comm]; omega

theorem InRange.zip_lt {ds bs : List Nat} (h : InRange ds bs) : ∀ p ∈ ds.zip bs, p.1 < p.2 := by
  induction ds generalizing bs with
  | nil => simp
  | cons d ds ih => cases bs with
    | nil => simp [InRange] at h
    | cons b bs =>
      intro p hp
      simp only [List.zip_cons_cons, List.mem_cons] at hp
      rcases hp with rfl | hp
      · exact h.1
      · exact ih h.2 p hp

theorem InRange.bases_pos {ds bs : List Nat} (h : InRange ds bs) : ∀ b ∈ bs, 0 < b := by
  induction ds generalizing bs with
  | nil => cases bs <;> simp_all [InRange]
  | cons d ds ih => cases bs with
    | nil => simp [InRange] at h
    | cons c cs =>
      intro b hb
      rcases List.mem_cons.mp hb with rfl | hm
      · have := h.1; omega
      · exact ih h.2 b hm

theorem digitsToIntLoop_ok_range (ds bs : List Int) (acc v : Int) (hl : ds.length = bs.length)
    (h : digitsToIntLoop ds bs acc = .ok v) : ∀ p ∈ ds.zip bs, 0 ≤ p.1 ∧ p.1 < p.2 := by
  induction ds generalizing bs acc with
  | nil => simp
  | cons d ds ih => cases bs with
    | nil => simp at hl
    | cons b bs =>
      simp only [digitsToIntLoop] at h
      by_cases hd : 0 ≤ d ∧ d < b
      · rw [if_pos hd] at h
        intro p hp
        simp only [List.zip_cons_cons, List.mem_cons] at hp
        rcases hp with rfl | hp
        · exact hd
        · exact ih bs _ (by simpa using hl) h p hp
      · rw [if_neg hd] at h; cases h

end CirqVerif.Digits
