import CirqVerif.Model.C08
import CirqVerif.Proofs.Sim
/-! A controlled operation acts as its target on the selected control states and as the identity elsewhere. -/
namespace CirqVerif.C08
open CirqVerif

theorem mem_product (p : PoS) (c : List Nat) : c ∈ product p ↔ satPoS p c = true := by
  induction p generalizing c with
  | nil => cases c <;> simp [product, satPoS]
  | cons vs rest ih =>
    cases c with
    | nil => simp [product, satPoS]
    | cons x xs =>
      simp only [product, List.mem_flatMap, List.mem_map, satPoS, Bool.and_eq_true, List.contains_iff_mem]
      constructor
      · rintro ⟨v, hv, y, hy, heq⟩
        simp only [List.cons.injEq] at heq
        obtain ⟨rfl, rfl⟩ := heq
        exact ⟨by simpa using hv, (ih y).mp hy⟩
      · rintro ⟨hx, hxs⟩
        exact ⟨x, by simpa using hx, xs, (ih xs).mpr hxs, rfl⟩

section sums
variable {R : Type} [Lean.Grind.CommRing R]

theorem sumL_flatMap {α β : Type} (l : List α) (g : α → List β) (f : β → R) :
    sumL (l.flatMap g) f = sumL l (fun a => sumL (g a) f) := by
  induction l with
  | nil => rfl
  | cons x xs ih => simp only [List.flatMap_cons, sumL_append, sumL_cons, ih]

theorem sumL_allIdx_append (c t : List Nat) (f : Idx → R) :
    sumL (allIdx (c ++ t)) f = sumL (allIdx c) (fun a => sumL (allIdx t) (fun b => f (a ++ b))) := by
  induction c generalizing f with
  | nil => simp [allIdx, sumL_cons, sumL_nil]; grind
  | cons d ds ih =>
    simp only [List.cons_append, allIdx, sumL_flatMap, sumL_map]
    apply sumL_congr
    intro x _
    rw [ih]

theorem sumL_delta {α : Type} [DecidableEq α] (l : List α) (x : α) (f : α → R) (hn : l.Nodup) :
    sumL l (fun a => if x = a then f a else 0) = if x ∈ l then f x else 0 := by
  induction l with
  | nil => simp [sumL_nil]
  | cons y ys ih =>
    have hn' := List.nodup_cons.mp hn
    rw [sumL_cons, ih hn'.2]
    by_cases hxy : x = y
    · subst hxy
      simp [hn'.1]; grind
    · have : ¬ (x = y ∨ x ∈ ys) ↔ ¬ x ∈ ys := by simp [hxy]
      by_cases hm : x ∈ ys <;> simp [hxy, hm] <;> grind

end sums

section
variable {R : Type} [Lean.Grind.CommRing R]

/-- a Kronecker delta under a sum over all indices picks out its argument -/
theorem sumL_allIdx_delta (dims : List Nat) (x : Idx) (f : Idx → R) :
    sumL (allIdx dims) (fun a => if x = a then f a else 0) = if x ∈ allIdx dims then f x else 0 := by
  induction dims generalizing x f with
  | nil =>
    simp only [allIdx, sumL_cons, sumL_nil, List.mem_singleton]
    by_cases h : x = [] <;> simp [h] <;> grind
  | cons d ds ih =>
    simp only [allIdx, sumL_flatMap, sumL_map]
    cases x with
    | nil =>
      have : ∀ v ∈ List.range d, sumL (allIdx ds) (fun c => if ([] : Idx) = v :: c then f (v :: c) else 0) = 0 := by
        intro v _
        refine Eq.trans (sumL_congr _ _ (fun _ => 0) ?_) (sumL_zero _)
        intro c _; simp
      rw [sumL_congr _ _ _ this, sumL_zero]
      simp
    | cons y ys =>
      have inner : ∀ v ∈ List.range d,
          sumL (allIdx ds) (fun c => if y :: ys = v :: c then f (v :: c) else 0)
            = if y = v then (if ys ∈ allIdx ds then f (y :: ys) else 0) else 0 := by
        intro v _
        by_cases hv : y = v
        · subst hv
          rw [if_pos rfl, ← ih ys (fun c => f (y :: c))]
          apply sumL_congr; intro c _
          by_cases hc : ys = c <;> simp [hc]
        · rw [if_neg hv]
          refine Eq.trans (sumL_congr _ _ (fun _ => 0) ?_) (sumL_zero _)
          intro c _
          have : ¬ (y :: ys = v :: c) := by intro h; exact hv (List.cons.inj h).1
          rw [if_neg this]
      rw [sumL_congr _ _ _ inner,
        sumL_delta (List.range d) y (fun _ => if ys ∈ allIdx ds then f (y :: ys) else 0) List.nodup_range]
      simp only [List.mem_range, List.mem_flatMap, List.mem_map]
      by_cases hy : y < d
      · by_cases hys : ys ∈ allIdx ds
        · rw [if_pos hy, if_pos hys, if_pos ⟨y, hy, ys, hys, rfl⟩]
        · rw [if_pos hy, if_neg hys, if_neg]
          rintro ⟨v, _, c, hc, heq⟩
          exact hys ((List.cons.inj heq).2 ▸ hc)
      · rw [if_neg hy, if_neg]
        rintro ⟨v, hv, c, _, heq⟩
        exact hy ((List.cons.inj heq).1 ▸ hv)

end

theorem mem_allIdx_of_valid (dims : List Nat) (b : Idx) (h : ValidIdx dims b) : b ∈ allIdx dims := by
  induction dims generalizing b with
  | nil => cases b <;> simp_all [ValidIdx, allIdx]
  | cons d ds ih => cases b with
    | nil => simp [ValidIdx] at h
    | cons x xs =>
      simp only [allIdx, List.mem_flatMap, List.mem_map, List.mem_range]
      exact ⟨x, h.1, xs, ih xs h.2, rfl⟩

theorem getAxes_append (idx : Idx) (a b : List Nat) : getAxes idx (a ++ b) = getAxes idx a ++ getAxes idx b := by
  simp [getAxes]

theorem setAxes_append (idx : Idx) (a b x y : List Nat) (h : x.length = a.length) :
    setAxes idx (a ++ b) (x ++ y) = setAxes (setAxes idx a x) b y := by
  induction a generalizing idx x with
  | nil =>
    have : x = [] := List.eq_nil_of_length_eq_zero (by simpa using h)
    subst this; simp [setAxes]
  | cons a' as ih => cases x with
    | nil => simp at h
    | cons x' xs =>
      simp only [List.cons_append, setAxes]
      exact ih _ _ (by simpa using h)

/-- writing back the digits that are already there changes nothing -/
theorem setAxes_getAxes_self (idx : Idx) (axes : List Nat) (hlt : ∀ a ∈ axes, a < idx.length) :
    setAxes idx axes (getAxes idx axes) = idx := by
  induction axes with
  | nil => simp [setAxes, getAxes]
  | cons a as ih =>
    have ha : a < idx.length := hlt a (by simp)
    simp only [getAxes, List.map_cons, setAxes]
    have hself : idx.set a (idx.getD a 0) = idx := by
      apply List.ext_getElem
      · simp
      · intro i h1 h2
        by_cases hia : a = i
        · subst hia; simp [List.getD_eq_getElem?_getD, ha]
        · simp [List.getElem_set_ne hia]
    rw [hself]
    exact ih (fun a' ha' => hlt a' (by simp [ha']))

section
variable {R : Type} [Lean.Grind.CommRing R]

/-- **Controlled operation = target on the selected control states, identity elsewhere.**
For any predicate `sat` on control tuples (products of sums, sums of products, qudit controls), any
control/target axes of a register of any shape and any state: -/
theorem controlled_apply (sat : List Nat → Bool) (U : Mat R) (shape caxes taxes : List Nat)
    (ψ : State R) (idx : Idx) (hv : ValidIdx shape idx)
    (hc : ∀ a ∈ caxes, a < idx.length) (ht : ∀ a ∈ taxes, a < idx.length) :
    applyOp (controlledMat sat caxes.length U)
        ((caxes ++ taxes).map (fun a => shape.getD a 1)) (caxes ++ taxes) ψ idx
      = if sat (getAxes idx caxes) then
          applyOp U (taxes.map (fun a => shape.getD a 1)) taxes ψ idx
        else ψ idx := by
  have hgc : (getAxes idx caxes).length = caxes.length := by simp [getAxes]
  -- the control digits of a valid index are a valid index of the control dimensions
  have hvalid : ∀ (axes : List Nat), (∀ a ∈ axes, a < idx.length) →
      ValidIdx (axes.map (fun a => shape.getD a 1)) (getAxes idx axes) := by
    intro axes hax
    have hget : ∀ a, a < idx.length → idx.getD a 0 < shape.getD a 1 := by
      intro a ha
      clear hc hgc ht hax
      induction shape generalizing idx a with
      | nil => cases idx <;> simp_all [ValidIdx]
      | cons d ds ih => cases idx with
        | nil => simp at ha
        | cons x xs => cases a with
          | zero => simpa using hv.1
          | succ a => simpa using ih xs hv.2 a (by simpa using ha)
    induction axes with
    | nil => simp [getAxes, ValidIdx]
    | cons a as ih =>
      simp only [getAxes, List.map_cons, ValidIdx]
      exact ⟨hget a (hax a (by simp)), ih (fun a' ha' => hax a' (by simp [ha']))⟩
  have hgcv := hvalid caxes hc
  unfold applyOp
  rw [List.map_append, sumL_allIdx_append, getAxes_append]
  have htake : ∀ (y : Idx), (getAxes idx caxes ++ y).take caxes.length = getAxes idx caxes := by
    intro y; rw [← hgc]; simp
  have hdrop : ∀ (y : Idx), (getAxes idx caxes ++ y).drop caxes.length = y := by
    intro y; rw [← hgc]; simp
  by_cases hs : sat (getAxes idx caxes) = true
  · rw [if_pos hs]
    -- only a = control digits contributes
    have step : ∀ a ∈ allIdx (caxes.map (fun a => shape.getD a 1)),
        sumL (allIdx (taxes.map (fun a => shape.getD a 1))) (fun b =>
          controlledMat sat caxes.length U (getAxes idx caxes ++ getAxes idx taxes) (a ++ b) *
            ψ (setAxes idx (caxes ++ taxes) (a ++ b)))
        = if getAxes idx caxes = a then
            sumL (allIdx (taxes.map (fun a => shape.getD a 1))) (fun b =>
              U (getAxes idx taxes) b * ψ (setAxes idx taxes b))
          else 0 := by
      intro a ha
      have hal : a.length = caxes.length := by
        have := allIdx_length _ a ha; simpa using this
      by_cases hga : getAxes idx caxes = a
      · rw [if_pos hga]
        apply sumL_congr
        intro b _
        unfold controlledMat
        rw [htake, if_pos hs, hdrop]
        have : (a ++ b).take caxes.length = a := by rw [← hal]; simp
        rw [this, if_pos hga]
        have hd : (a ++ b).drop caxes.length = b := by rw [← hal]; simp
        rw [hd, setAxes_append _ _ _ _ _ hal, ← hga, setAxes_getAxes_self idx caxes hc]
      · rw [if_neg hga]
        refine Eq.trans (sumL_congr _ _ (fun _ => 0) ?_) (sumL_zero _)
        intro b _
        unfold controlledMat
        rw [htake, if_pos hs]
        have : (a ++ b).take caxes.length = a := by rw [← hal]; simp
        rw [this, if_neg hga]; grind
    rw [sumL_congr _ _ _ step, sumL_allIdx_delta,
      if_pos (mem_allIdx_of_valid _ _ hgcv)]
  · rw [if_neg hs]
    have hs' : sat (getAxes idx caxes) = false := by simpa using hs
    -- identity: only (a, b) = own digits contributes; handle through the full index
    have hlt_all : ∀ a ∈ caxes ++ taxes, a < idx.length ∨ True := fun _ _ => Or.inr trivial
    have step : ∀ a ∈ allIdx (caxes.map (fun a => shape.getD a 1)),
        sumL (allIdx (taxes.map (fun a => shape.getD a 1))) (fun b =>
          controlledMat sat caxes.length U (getAxes idx caxes ++ getAxes idx taxes) (a ++ b) *
            ψ (setAxes idx (caxes ++ taxes) (a ++ b)))
        = if getAxes idx caxes = a then
            sumL (allIdx (taxes.map (fun a => shape.getD a 1))) (fun b =>
              if getAxes idx taxes = b then ψ (setAxes idx taxes b) else 0)
          else 0 := by
      intro a ha
      have hal : a.length = caxes.length := by
        have := allIdx_length _ a ha; simpa using this
      by_cases hga : getAxes idx caxes = a
      · rw [if_pos hga]
        apply sumL_congr
        intro b _
        unfold controlledMat
        rw [htake, hs']
        simp only [Bool.false_eq_true, if_false]
        rw [setAxes_append _ _ _ _ _ hal, ← hga, setAxes_getAxes_self idx caxes hc]
        by_cases hb : getAxes idx taxes = b
        · rw [if_pos hb, if_pos (by rw [hb])]; grind
        · rw [if_neg hb, if_neg (by intro h; exact hb (List.append_cancel_left h))]; grind
      · rw [if_neg hga]
        refine Eq.trans (sumL_congr _ _ (fun _ => 0) ?_) (sumL_zero _)
        intro b _
        unfold controlledMat
        rw [htake, hs']
        simp only [Bool.false_eq_true, if_false]
        have : ¬ (getAxes idx caxes ++ getAxes idx taxes = a ++ b) := by
          intro h
          have := List.append_inj_left h (by rw [hgc, hal])
          exact hga this
        rw [if_neg this]; grind
    rw [sumL_congr _ _ _ step, sumL_allIdx_delta,
      if_pos (mem_allIdx_of_valid _ _ hgcv), sumL_allIdx_delta]
    rw [if_pos (mem_allIdx_of_valid _ _ (hvalid taxes ht)), setAxes_getAxes_self idx taxes ht]

end
end CirqVerif.C08
