import CirqVerif.Proofs.Tensor
/-!
Spectral calculus of an `EigenGate`: for orthogonal idempotent projectors `P₀ … P_{n-1}` over any
commutative ring, `U(a) = Σₖ aₖ Pₖ` multiplies coefficient-wise, hence `t ↦ Σₖ ph(t(θₖ+s)) Pₖ` is a
one-parameter group (powers add, inverse undoes) for every phase map `ph` with `ph(x+y) = ph x · ph y`.
-/
namespace CirqVerif.Eigen

variable {R : Type} [Lean.Grind.CommRing R]

/-- `d×d` matrices as functions on `Nat × Nat` (only indices below `d` matter) -/
abbrev FMat (R : Type) := Nat → Nat → R

def fmul (d : Nat) (A B : FMat R) : FMat R := fun i j => sumL (List.range d) (fun m => A i m * B m j)

/-- `Σ_{k<n} aₖ Pₖ` -/
def spectral (n : Nat) (a : Nat → R) (P : Nat → FMat R) : FMat R :=
  fun i j => sumL (List.range n) (fun k => a k * P k i j)

theorem sumL_ite_eq (n k : Nat) (hk : k < n) (x : Nat → R) :
    sumL (List.range n) (fun l => if k = l then x l else 0) = x k := by
  induction n with
  | zero => omega
  | succ n ih =>
    rw [List.range_succ, sumL_append]
    by_cases h : k = n
    · subst h
      have : sumL (List.range k) (fun l => if k = l then x l else (0 : R)) = 0 := by
        have hz := sumL_zero (R := R) (List.range k)
        refine Eq.trans (sumL_congr _ _ (fun _ => 0) ?_) hz
        intro l hl
        have : l < k := List.mem_range.mp hl
        rw [if_neg (by omega)]
      rw [this]
      simp [sumL_cons, sumL_nil]
      grind
    · rw [ih (by omega)]
      simp [sumL_cons, sumL_nil, h]
      grind

/-- coefficient-wise multiplication of spectral sums over orthogonal idempotents -/
theorem spectral_mul (d n : Nat) (a b : Nat → R) (P : Nat → FMat R)
    (horth : ∀ k l, k < n → l < n → ∀ i j, fmul d (P k) (P l) i j = if k = l then P k i j else 0)
    (i j : Nat) :
    fmul d (spectral n a P) (spectral n b P) i j = spectral n (fun k => a k * b k) P i j := by
  unfold fmul spectral
  -- expand the product of sums
  have h1 : sumL (List.range d) (fun m =>
        sumL (List.range n) (fun k => a k * P k i m) * sumL (List.range n) (fun l => b l * P l m j))
      = sumL (List.range d) (fun m => sumL (List.range n) (fun k => sumL (List.range n) (fun l =>
          a k * b l * (P k i m * P l m j)))) := by
    apply sumL_congr
    intro m _
    rw [← sumL_mul_right]
    apply sumL_congr
    intro k _
    rw [← sumL_mul_left]
    apply sumL_congr
    intro l _
    grind
  rw [h1, sumL_comm]
  apply sumL_congr
  intro k hk
  have hk' : k < n := List.mem_range.mp hk
  rw [sumL_comm]
  have h2 : sumL (List.range n) (fun l => sumL (List.range d) (fun m => a k * b l * (P k i m * P l m j)))
      = sumL (List.range n) (fun l => if k = l then a k * b l * P k i j else 0) := by
    apply sumL_congr
    intro l hl
    have hl' : l < n := List.mem_range.mp hl
    rw [sumL_mul_left]
    have := horth k l hk' hl' i j
    unfold fmul at this
    rw [this]
    split <;> grind
  rw [h2, sumL_ite_eq n k hk' (fun l => a k * b l * P k i j)]

/-- `U(t) = Σₖ ph(t·(θₖ + s)) Pₖ` -/
def eigenU {A : Type} [Add A] [Mul A] (n : Nat) (θ : Nat → A) (s : A) (ph : A → R) (P : Nat → FMat R) (t : A) : FMat R :=
  spectral n (fun k => ph (t * (θ k + s))) P

/-- **Powers add**: `U(t₁)·U(t₂) = U(t₁+t₂)` for every pair of exponents, every global shift. -/
theorem eigenU_add {A : Type} [Lean.Grind.CommRing A] (d n : Nat) (θ : Nat → A) (s : A) (ph : A → R)
    (hph : ∀ x y, ph (x + y) = ph x * ph y) (P : Nat → FMat R)
    (horth : ∀ k l, k < n → l < n → ∀ i j, fmul d (P k) (P l) i j = if k = l then P k i j else 0)
    (t₁ t₂ : A) (i j : Nat) :
    fmul d (eigenU n θ s ph P t₁) (eigenU n θ s ph P t₂) i j = eigenU n θ s ph P (t₁ + t₂) i j := by
  unfold eigenU
  rw [spectral_mul d n _ _ P horth]
  unfold spectral
  apply sumL_congr
  intro k _
  have : (t₁ + t₂) * (θ k + s) = t₁ * (θ k + s) + t₂ * (θ k + s) := by grind
  show ph (t₁ * (θ k + s)) * ph (t₂ * (θ k + s)) * P k i j = ph ((t₁ + t₂) * (θ k + s)) * P k i j
  rw [this, hph]

/-- `U(0) = Σₖ Pₖ` (the identity when the projectors are complete) -/
theorem eigenU_zero {A : Type} [Lean.Grind.CommRing A] (n : Nat) (θ : Nat → A) (s : A) (ph : A → R)
    (hph0 : ph 0 = 1) (P : Nat → FMat R) (i j : Nat) :
    eigenU n θ s ph P 0 i j = sumL (List.range n) (fun k => P k i j) := by
  unfold eigenU spectral
  apply sumL_congr
  intro k _
  have : (0 : A) * (θ k + s) = 0 := by grind
  show ph (0 * (θ k + s)) * P k i j = P k i j
  rw [this, hph0]; grind

end CirqVerif.Eigen
