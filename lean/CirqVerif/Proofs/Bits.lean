import CirqVerif.Proofs.Digits
namespace CirqVerif.Digits

/-- base-2 Horner value -/
def val2 (ds : List Nat) (acc : Nat) : Nat := ds.foldl (fun r d => 2 * r + d) acc

theorem horner_replicate2 (ds : List Nat) (acc : Nat) :
    horner ds (List.replicate ds.length 2) acc = val2 ds acc := by
  induction ds generalizing acc with
  | nil => simp [horner, val2]
  | cons d ds ih =>
    simp only [List.length_cons, List.replicate_succ, horner, val2, List.foldl_cons]
    rw [ih]; simp [val2, Nat.mul_comm]

theorem val2_append (a b : List Nat) (acc : Nat) : val2 (a ++ b) acc = val2 b (val2 a acc) := by
  simp [val2, List.foldl_append]

theorem val2_zeros (k : Nat) : val2 (List.replicate k 0) 0 = 0 := by
  induction k with
  | zero => rfl
  | succ k ih => simp [List.replicate_succ, val2] ; simpa [val2] using ih

theorem binDigits_val (v : Nat) : val2 (binDigits v) 0 = v := by
  induction v using Nat.strongRecOn with
  | _ v ih =>
    rw [binDigits]
    by_cases h : v = 0
    · simp [h, val2]
    · simp only [h, dite_false, val2_append]
      rw [ih (v / 2) (by omega)]
      simp [val2]; omega

theorem binDigits_lt2 (v : Nat) : ∀ d ∈ binDigits v, d < 2 := by
  induction v using Nat.strongRecOn with
  | _ v ih =>
    rw [binDigits]
    by_cases h : v = 0
    · simp [h]
    · simp only [h, dite_false, List.mem_append, List.mem_singleton]
      rintro d (hd | rfl)
      · exact ih (v / 2) (by omega) d hd
      · omega

theorem binChars_val (v : Nat) : val2 (binChars v) 0 = v := by
  unfold binChars
  by_cases h : v = 0
  · simp [h, val2]
  · simp [h, binDigits_val]

theorem binChars_lt2 (v : Nat) : ∀ d ∈ binChars v, d < 2 := by
  unfold binChars
  by_cases h : v = 0
  · simp [h]
  · simpa [h] using binDigits_lt2 v

theorem inRange_replicate2 (ds : List Nat) (h : ∀ d ∈ ds, d < 2) :
    InRange ds (List.replicate ds.length 2) := by
  induction ds with
  | nil => trivial
  | cons d ds ih =>
    exact ⟨h d (by simp), ih (fun x hx => h x (by simp [hx]))⟩

/-! bits -/

theorem bitsToInt_foldl (bits : List Bool) (acc : Nat) :
    bits.foldl (fun r b => 2 * r + (if b then 1 else 0)) acc
      = acc * 2 ^ bits.length + bitsToInt bits := by
  induction bits generalizing acc with
  | nil => simp [bitsToInt]
  | cons b bs ih =>
    simp only [List.foldl_cons, bitsToInt, List.length_cons]
    rw [ih, ih (2 * 0 + _)]
    simp [bitsToInt, Nat.pow_succ, Nat.add_mul]; 
    rw [Nat.mul_comm 2 acc, Nat.mul_assoc, Nat.mul_comm 2]; omega

theorem bitsToInt_cons (b : Bool) (bs : List Bool) :
    bitsToInt (b :: bs) = (if b then 1 else 0) * 2 ^ bs.length + bitsToInt bs := by
  simp only [bitsToInt, List.foldl_cons]
  rw [bitsToInt_foldl]; simp [bitsToInt]

theorem bitsToInt_lt (bs : List Bool) : bitsToInt bs < 2 ^ bs.length := by
  induction bs with
  | nil => simp [bitsToInt]
  | cons b bs ih =>
    rw [bitsToInt_cons, List.length_cons, Nat.pow_succ]
    cases b <;> simp <;> omega

theorem intToBits_succ (v n : Nat) : intToBits v (n + 1) = v.testBit n :: intToBits v n := by
  simp [intToBits, List.range_succ]

theorem intToBits_congr (a b n : Nat) (h : ∀ i, i < n → a.testBit i = b.testBit i) :
    intToBits a n = intToBits b n := by
  unfold intToBits
  apply List.map_congr_left
  intro i hi
  exact h i (by simpa using hi)

end CirqVerif.Digits
