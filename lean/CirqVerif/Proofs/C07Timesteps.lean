import CirqVerif.Model.C07Timesteps
import CirqVerif.Props.C05
/-! invariants of the timestep factoring (helper lemmas for Props/C07Timesteps) -/
namespace CirqVerif.C07
open CirqVerif.C05



theorem foldl_max_ge {α : Type} (f : α → Nat) (ws : List α) (b : Nat) :
    b ≤ ws.foldl (fun acc w => max acc (f w)) b ∧ ∀ w ∈ ws, f w ≤ ws.foldl (fun acc w => max acc (f w)) b := by
  induction ws generalizing b with
  | nil => simp
  | cons x xs ih =>
    obtain ⟨h1, h2⟩ := ih (max b (f x))
    simp only [List.foldl_cons]
    refine ⟨by omega, ?_⟩
    intro w hw
    rcases List.mem_cons.mp hw with rfl | hw
    · omega
    · exact h2 w hw

theorem mem_flatMap_of_mem {m : Moment} {a : Op} (f : Op → List Nat) (h : a ∈ m) : ∀ x ∈ f a, x ∈ m.flatMap f := by
  intro x hx; exact List.mem_flatMap.mpr ⟨a, h, hx⟩

theorem not_disj_mono_right (xs ys zs : List Nat) (h : ∀ y ∈ ys, y ∈ zs) (hd : disj xs ys = false) : disj xs zs = false := by
  cases hz : disj xs zs with
  | false => rfl
  | true =>
    rw [disj_iff] at hz
    have : disj xs ys = true := by
      rw [disj_iff]; intro x hx hy; exact hz x hx (h x hy)
    rw [this] at hd; cases hd

theorem not_disj_mono_left (xs ys zs : List Nat) (h : ∀ y ∈ xs, y ∈ zs) (hd : disj xs ys = false) : disj zs ys = false := by
  rw [disj_comm] at hd ⊢
  exact not_disj_mono_right ys xs zs h hd

/-- a conflict with one operation of a moment is a conflict with the moment -/
theorem conflicts_mono (m : Moment) (a o : Op) (ha : a ∈ m) (h : conflicts [a] o = true) : conflicts m o = true := by
  simp only [conflicts, operatesOn, keyConflict, mQubits, mMkeys, mCkeys, List.flatMap_cons, List.flatMap_nil, List.append_nil,
    Bool.or_eq_true, Bool.not_eq_true'] at h ⊢
  rcases h with h | (h | h) | h
  · left; exact not_disj_mono_right _ _ _ (mem_flatMap_of_mem (·.qubits) ha) h
  · right; left; left; exact not_disj_mono_right _ _ _ (mem_flatMap_of_mem (·.mkeys) ha) h
  · right; left; right; exact not_disj_mono_right _ _ _ (mem_flatMap_of_mem (·.mkeys) ha) h
  · right; right; exact not_disj_mono_left _ _ _ (mem_flatMap_of_mem (·.ckeys) ha) h

/-- every conflicting moment lies before the earliest available one -/
theorem earliest_gt (c : Circuit) (o : Op) (i : Nat) (m : Moment) (hm : c[i]? = some m) (hc : conflicts m o = true) :
    i < earliestAvailable c o c.length := by
  have hi : i < c.length := by
    rcases Nat.lt_or_ge i c.length with h | h
    · exact h
    · rw [List.getElem?_eq_none h] at hm; cases hm
  obtain ⟨_, h2, _⟩ := C05_earliest_available_spec c o c.length
  rcases Nat.lt_or_ge i (earliestAvailable c o c.length) with h | h
  · exact h
  · have := h2 i h (by simpa using hi) m hm
    rw [this] at hc; cases hc

theorem padTo_getElem? (l : List (List Op)) (n i : Nat) (m : List Op) (h : l[i]? = some m) : (padTo l n)[i]? = some m := by
  have hi : i < l.length := by
    rcases Nat.lt_or_ge i l.length with h' | h'
    · exact h'
    · rw [List.getElem?_eq_none h'] at h; cases h
  simp [padTo, List.getElem?_append_left hi, h]

theorem padTo_length (l : List (List Op)) (n : Nat) : n ≤ (padTo l n).length := by
  simp [padTo]; omega

/-- what is known about the operations placed so far -/
structure TSInv (s : TS) (done : List (Op × Nat × Bool)) : Prop where
  two_at : ∀ a t, (a, t, true) ∈ done → ∃ m, s.two[t]? = some m ∧ a ∈ m
  single_le : ∀ a t, (a, t, false) ∈ done → ∀ w ∈ wiresOf a, t ≤ lastOf s.last w

theorem lastOf_append_map (ws : List Wire) (t : Nat) (tbl : List (Wire × Nat)) (w : Wire) :
    lastOf (ws.map (fun w => (w, t)) ++ tbl) w = if w ∈ ws then t else lastOf tbl w := by
  induction ws with
  | nil => simp
  | cons x xs ih =>
    by_cases hx : x = w
    · subst hx; simp [lastOf]
    · have hne : (x == w) = false := by simpa using hx
      have : lastOf ((x, t) :: (xs.map (fun w => (w, t)) ++ tbl)) w = lastOf (xs.map (fun w => (w, t)) ++ tbl) w := by
        simp [lastOf, List.find?, hne]
      simp only [List.map_cons, List.cons_append, this, ih, List.mem_cons]
      have : ¬ w = x := fun h => hx h.symm
      simp [this]

theorem stepTS_two (s : TS) (o : Op) (h : isTwo o = true) :
    stepTS s o = { two := (padTo s.two (timestepOf s o + 1)).set (timestepOf s o) ((padTo s.two (timestepOf s o + 1))[timestepOf s o]?.getD [] ++ [o]),
                   single := padTo s.single (timestepOf s o + 1), last := s.last } := by
  simp [stepTS, h]

theorem stepTS_single (s : TS) (o : Op) (h : isTwo o = false) :
    stepTS s o = { two := padTo s.two (timestepOf s o + 1),
                   single := (padTo s.single (timestepOf s o + 1)).set (timestepOf s o) ((padTo s.single (timestepOf s o + 1))[timestepOf s o]?.getD [] ++ [o]),
                   last := (wiresOf o).map (fun w => (w, timestepOf s o)) ++ s.last } := by
  simp [stepTS, h]

/-- one more operation: it lands strictly after every two-qubit operation it conflicts with and not before any one-qubit operation
it shares a wire with; the invariant is kept -/
theorem step_inv (s : TS) (done : List (Op × Nat × Bool)) (o : Op) (h : TSInv s done) :
    TSInv (stepTS s o) (done ++ [(o, timestepOf s o, isTwo o)])
    ∧ (∀ a t, (a, t, true) ∈ done → conflicts [a] o = true → t < timestepOf s o)
    ∧ (∀ a t, (a, t, false) ∈ done → (∃ w, w ∈ wiresOf a ∧ w ∈ wiresOf o) → t ≤ timestepOf s o) := by
  have hfold := foldl_max_ge (fun w => lastOf s.last w) (wiresOf o) (earliestAvailable s.two o s.two.length)
  have hge0 : earliestAvailable s.two o s.two.length ≤ timestepOf s o := hfold.1
  have hgew : ∀ w ∈ wiresOf o, lastOf s.last w ≤ timestepOf s o := hfold.2
  refine ⟨?_, ?_, ?_⟩
  · cases htwo : isTwo o with
    | true =>
      rw [stepTS_two s o htwo]
      constructor
      · intro a t hmem
        rcases List.mem_append.mp hmem with hd | hn
        · obtain ⟨m, hm, ha⟩ := h.two_at a t hd
          have hp := padTo_getElem? s.two (timestepOf s o + 1) t m hm
          by_cases hte : t = timestepOf s o
          · subst hte
            have hlen := padTo_length s.two (timestepOf s o + 1)
            refine ⟨m ++ [o], ?_, by simp [ha]⟩
            show ((padTo s.two (timestepOf s o + 1)).set (timestepOf s o) _)[timestepOf s o]? = _
            rw [List.getElem?_set_self (by omega), hp]; rfl
          · refine ⟨m, ?_, ha⟩
            show ((padTo s.two (timestepOf s o + 1)).set (timestepOf s o) _)[t]? = _
            rw [List.getElem?_set_ne (fun h' => hte h'.symm)]; exact hp
        · simp only [List.mem_singleton, Prod.mk.injEq] at hn
          obtain ⟨rfl, rfl, _⟩ := hn
          have hlen := padTo_length s.two (timestepOf s a + 1)
          refine ⟨(padTo s.two (timestepOf s a + 1))[timestepOf s a]?.getD [] ++ [a], ?_, by simp⟩
          show ((padTo s.two (timestepOf s a + 1)).set (timestepOf s a) _)[timestepOf s a]? = _
          rw [List.getElem?_set_self (by omega)]
      · intro a t hmem w hw
        rcases List.mem_append.mp hmem with hd | hn
        · exact h.single_le a t hd w hw
        · simp only [List.mem_singleton, Prod.mk.injEq] at hn
          obtain ⟨rfl, rfl, hf⟩ := hn
          cases hf
    | false =>
      rw [stepTS_single s o htwo]
      constructor
      · intro a t hmem
        rcases List.mem_append.mp hmem with hd | hn
        · obtain ⟨m, hm, ha⟩ := h.two_at a t hd
          exact ⟨m, padTo_getElem? s.two (timestepOf s o + 1) t m hm, ha⟩
        · simp only [List.mem_singleton, Prod.mk.injEq] at hn
          obtain ⟨rfl, rfl, hf⟩ := hn
          cases hf
      · intro a t hmem w hw
        show t ≤ lastOf ((wiresOf o).map (fun w => (w, timestepOf s o)) ++ s.last) w
        rw [lastOf_append_map]
        rcases List.mem_append.mp hmem with hd | hn
        · have hle := h.single_le a t hd w hw
          split
          · rename_i hwo; have := hgew w hwo; omega
          · exact hle
        · simp only [List.mem_singleton, Prod.mk.injEq] at hn
          obtain ⟨rfl, rfl, _⟩ := hn
          simp [hw]
  · intro a t hmem hc
    obtain ⟨m, hm, ha⟩ := h.two_at a t hmem
    have := earliest_gt s.two o t m hm (conflicts_mono m a o ha hc)
    omega
  · intro a t hmem ⟨w, hwa, hwo⟩
    have := h.single_le a t hmem w hwa
    have := hgew w hwo
    omega

theorem assign_spec (ops : List Op) (s : TS) (done : List (Op × Nat × Bool)) (h : TSInv s done) :
    (∀ d ∈ done, ∀ e ∈ assign s ops, Rel d e) ∧ (assign s ops).Pairwise Rel := by
  induction ops generalizing s done with
  | nil => simp [assign]
  | cons o os ih =>
    obtain ⟨hinv, h2, h1⟩ := step_inv s done o h
    obtain ⟨ihd, ihp⟩ := ih (stepTS s o) (done ++ [(o, timestepOf s o, isTwo o)]) hinv
    simp only [assign]
    refine ⟨?_, ?_⟩
    · intro d hd e he
      rcases List.mem_cons.mp he with rfl | he
      · obtain ⟨a, t, k⟩ := d
        refine ⟨?_, ?_⟩
        · intro hk hc; simp only at hk; subst hk; exact h2 a t hd hc
        · intro hk hw; simp only at hk; subst hk; exact h1 a t hd hw
      · exact ihd d (List.mem_append_left _ hd) e he
    · rw [List.pairwise_cons]
      exact ⟨fun e he => ihd _ (List.mem_append_right _ (by simp)) e he, ihp⟩

theorem set_append_keeps (l : List (List Op)) (n i t : Nat) (m : List Op) (o a : Op) (hm : l[i]? = some m) (ha : a ∈ m) :
    ∃ m', ((padTo l n).set t ((padTo l n)[t]?.getD [] ++ [o]))[i]? = some m' ∧ a ∈ m' := by
  have hp := padTo_getElem? l n i m hm
  by_cases hit : i = t
  · subst hit
    have hlt : i < (padTo l n).length := by
      rcases Nat.lt_or_ge i (padTo l n).length with h | h
      · exact h
      · rw [List.getElem?_eq_none h] at hp; cases hp
    exact ⟨m ++ [o], by rw [List.getElem?_set_self hlt, hp]; rfl, by simp [ha]⟩
  · exact ⟨m, by rw [List.getElem?_set_ne (fun h => hit h.symm)]; exact hp, ha⟩

theorem placed_step (s : TS) (done : List (Op × Nat × Bool)) (o : Op) (h : Placed s done) :
    Placed (stepTS s o) (done ++ [(o, timestepOf s o, isTwo o)]) := by
  have hl2 := padTo_length s.two (timestepOf s o + 1)
  have hl1 := padTo_length s.single (timestepOf s o + 1)
  cases htwo : isTwo o with
  | true =>
    rw [stepTS_two s o htwo]
    constructor
    · intro a t hmem
      rcases List.mem_append.mp hmem with hd | hn
      · obtain ⟨m, hm, ha⟩ := h.two_at a t hd
        exact set_append_keeps s.two _ t _ m o a hm ha
      · simp only [List.mem_singleton, Prod.mk.injEq] at hn
        obtain ⟨rfl, rfl, _⟩ := hn
        exact ⟨_, by show ((padTo s.two (timestepOf s a + 1)).set _ _)[timestepOf s a]? = _; rw [List.getElem?_set_self (by omega)], by simp⟩
    · intro a t hmem
      rcases List.mem_append.mp hmem with hd | hn
      · obtain ⟨m, hm, ha⟩ := h.single_at a t hd
        exact ⟨m, padTo_getElem? s.single _ t m hm, ha⟩
      · simp only [List.mem_singleton, Prod.mk.injEq] at hn
        obtain ⟨rfl, rfl, hf⟩ := hn
        cases hf
  | false =>
    rw [stepTS_single s o htwo]
    constructor
    · intro a t hmem
      rcases List.mem_append.mp hmem with hd | hn
      · obtain ⟨m, hm, ha⟩ := h.two_at a t hd
        exact ⟨m, padTo_getElem? s.two _ t m hm, ha⟩
      · simp only [List.mem_singleton, Prod.mk.injEq] at hn
        obtain ⟨rfl, rfl, hf⟩ := hn
        cases hf
    · intro a t hmem
      rcases List.mem_append.mp hmem with hd | hn
      · obtain ⟨m, hm, ha⟩ := h.single_at a t hd
        exact set_append_keeps s.single _ t _ m o a hm ha
      · simp only [List.mem_singleton, Prod.mk.injEq] at hn
        obtain ⟨rfl, rfl, _⟩ := hn
        exact ⟨_, by show ((padTo s.single (timestepOf s a + 1)).set _ _)[timestepOf s a]? = _; rw [List.getElem?_set_self (by omega)], by simp⟩

theorem placed_fold (ops : List Op) (s : TS) (done : List (Op × Nat × Bool)) (h : Placed s done) :
    Placed (ops.foldl stepTS s) (done ++ assign s ops) := by
  induction ops generalizing s done with
  | nil => simpa [assign] using h
  | cons o os ih =>
    have := ih (stepTS s o) (done ++ [(o, timestepOf s o, isTwo o)]) (placed_step s done o h)
    simpa [assign, List.append_assoc] using this

end CirqVerif.C07
