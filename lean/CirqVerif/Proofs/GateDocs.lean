import CirqVerif.Spec.GateDocs
import CirqVerif.Base.Q8
/-! The documented closed forms equal the eigen-decomposition `Σₖ e^{iπ t(θₖ+s)} Pₖ`, for all `t`, `s`. -/
namespace CirqVerif.GateDocs

/-- the laws of the elementary functions the documentation uses (true for ℂ with the real exponential;
hypotheses of the theorems, never assumed for the float execution) -/
structure Lawful {A R : Type} [Lean.Grind.CommRing A] [Lean.Grind.CommRing R] (E : Env A R) : Prop where
  ph_add : ∀ x y, E.ph (x + y) = E.ph x * E.ph y
  ph_zero : E.ph 0 = 1
  cos_def : ∀ x, E.cosπ x = (E.ph x + E.ph (-x)) * E.half
  sin_def : ∀ x, E.sinπ x = (E.ph (-x) - E.ph x) * E.half * E.I
  I_sq : E.I * E.I = -1
  half_def : E.half + E.half = 1
  isq2_sq : E.isq2 * E.isq2 = E.half
  halfA_def : E.halfA + E.halfA = 1

section comps
variable {A R : Type} [Add R] [Mul R] [Neg R] [Sub R] [OfNat R 0] [OfNat R 1]

def xpowComps (E : Env A R) (zeroA oneA : A) : List (A × M R) :=
  [(zeroA, [[E.half, E.half], [E.half, E.half]]), (oneA, [[E.half, -E.half], [-E.half, E.half]])]

def ypowComps (E : Env A R) (zeroA oneA : A) : List (A × M R) :=
  [(zeroA, [[E.half, -(E.I * E.half)], [E.I * E.half, E.half]]),
   (oneA, [[E.half, E.I * E.half], [-(E.I * E.half), E.half]])]

def zpowComps (zeroA oneA : A) : List (A × M R) :=
  [(zeroA, [[1, 0], [0, 0]]), (oneA, [[0, 0], [0, 1]])]

def hpowComps (E : Env A R) (zeroA oneA : A) : List (A × M R) :=
  [(zeroA, [[E.half + E.isq2 * E.half, E.isq2 * E.half], [E.isq2 * E.half, E.half - E.isq2 * E.half]]),
   (oneA, [[E.half - E.isq2 * E.half, -(E.isq2 * E.half)], [-(E.isq2 * E.half), E.half + E.isq2 * E.half]])]

def czpowComps (zeroA oneA : A) : List (A × M R) :=
  [(zeroA, [[1, 0, 0, 0], [0, 1, 0, 0], [0, 0, 1, 0], [0, 0, 0, 0]]),
   (oneA, [[0, 0, 0, 0], [0, 0, 0, 0], [0, 0, 0, 0], [0, 0, 0, 1]])]

def zzpowComps (zeroA oneA : A) : List (A × M R) :=
  [(zeroA, [[1, 0, 0, 0], [0, 0, 0, 0], [0, 0, 0, 0], [0, 0, 0, 1]]),
   (oneA, [[0, 0, 0, 0], [0, 1, 0, 0], [0, 0, 1, 0], [0, 0, 0, 0]])]

def swappowComps (E : Env A R) (zeroA oneA : A) : List (A × M R) :=
  [(zeroA, [[1, 0, 0, 0], [0, E.half, E.half, 0], [0, E.half, E.half, 0], [0, 0, 0, 1]]),
   (oneA, [[0, 0, 0, 0], [0, E.half, -E.half, 0], [0, -E.half, E.half, 0], [0, 0, 0, 0]])]

def xxpowComps (E : Env A R) (zeroA oneA : A) : List (A × M R) :=
  [(zeroA, [[E.half, 0, 0, E.half], [0, E.half, E.half, 0], [0, E.half, E.half, 0], [E.half, 0, 0, E.half]]),
   (oneA, [[E.half, 0, 0, -E.half], [0, E.half, -E.half, 0], [0, -E.half, E.half, 0], [-E.half, 0, 0, E.half]])]

def yypowComps (E : Env A R) (zeroA oneA : A) : List (A × M R) :=
  [(zeroA, [[E.half, 0, 0, -E.half], [0, E.half, E.half, 0], [0, E.half, E.half, 0], [-E.half, 0, 0, E.half]]),
   (oneA, [[E.half, 0, 0, E.half], [0, E.half, -E.half, 0], [0, -E.half, E.half, 0], [E.half, 0, 0, E.half]])]

end comps

section
variable {A R : Type} [Lean.Grind.CommRing A] [Lean.Grind.CommRing R]

def madd (a b : M R) : M R := List.zipWith (fun r s => List.zipWith (· + ·) r s) a b

/-- `Σₖ ph(t(θₖ+s)) · Pₖ` for a list of (angle, projector) -/
def eigenDoc (E : Env A R) (comps : List (A × M R)) (t s : A) : M R :=
  match comps with
  | [] => []
  | [(θ, P)] => smul (E.ph (t * (θ + s))) P
  | (θ, P) :: rest => madd (smul (E.ph (t * (θ + s))) P) (eigenDoc E rest t s)

/-- eigen-components of `XPowGate` as the documentation's eigen-decomposition: angles 0, 1;
projectors (1 ± X)/2 -/
theorem ph_neg_mul {E : Env A R} (h : Lawful E) (x : A) : E.ph x * E.ph (-x) = 1 := by
  rw [← h.ph_add]; have : x + -x = 0 := by grind
  rw [this, h.ph_zero]

theorem ph_half_sq {E : Env A R} (h : Lawful E) (t : A) : E.ph (t * E.halfA) * E.ph (t * E.halfA) = E.ph t := by
  rw [← h.ph_add]
  have : t * E.halfA + t * E.halfA = t := by
    have := h.halfA_def
    grind
  rw [this]

/-- the facts about `ph` at the arguments the documentation uses, for one `t`, `s` -/
theorem ph_facts {E : Env A R} (h : Lawful E) (t s : A) :
    E.ph (t * (s + E.halfA)) = E.ph (t * s) * E.ph (t * E.halfA)
    ∧ E.ph (t * (1 + s)) = E.ph (t * s) * E.ph t
    ∧ E.ph (t * (0 + s)) = E.ph (t * s)
    ∧ E.ph (t * E.halfA) * E.ph (t * E.halfA) = E.ph t
    ∧ E.ph (t * E.halfA) * E.ph (-(t * E.halfA)) = 1 := by
  refine ⟨?_, ?_, ?_, ph_half_sq h t, ph_neg_mul h _⟩
  · rw [← h.ph_add]; congr 1; grind
  · rw [← h.ph_add]; congr 1; grind
  · congr 1; grind

/-- unfold list matrices to entry-wise goals and close each with the ring solver -/
macro "mat_eq" : tactic => `(tactic|
  (simp only [List.cons.injEq, and_true, true_and]
   repeat' constructor
   all_goals grind))

theorem xpow_eq_eigen (E : Env A R) (h : Lawful E) (t s : A) :
    xpow E t s = eigenDoc E (xpowComps E 0 1) t s := by
  obtain ⟨h1, h4, h5, h2, h3⟩ := ph_facts h t s
  have hc := h.cos_def (t * E.halfA); have hs := h.sin_def (t * E.halfA)
  have hI := h.I_sq; have hh := h.half_def
  simp only [xpow, eigenDoc, xpowComps, smul, madd, List.map_cons, List.map_nil, List.zipWith_cons_cons,
    List.zipWith_nil_left, h1, h4, h5, hc, hs]
  mat_eq

theorem ypow_eq_eigen (E : Env A R) (h : Lawful E) (t s : A) :
    ypow E t s = eigenDoc E (ypowComps E 0 1) t s := by
  obtain ⟨h1, h4, h5, h2, h3⟩ := ph_facts h t s
  have hc := h.cos_def (t * E.halfA); have hs := h.sin_def (t * E.halfA)
  have hI := h.I_sq; have hh := h.half_def
  simp only [ypow, eigenDoc, ypowComps, smul, madd, List.map_cons, List.map_nil, List.zipWith_cons_cons,
    List.zipWith_nil_left, h1, h4, h5, hc, hs]
  mat_eq

theorem zpow_eq_eigen (E : Env A R) (h : Lawful E) (t s : A) :
    zpow E t s = eigenDoc E (zpowComps 0 1) t s := by
  obtain ⟨h1, h4, h5, h2, h3⟩ := ph_facts h t s
  simp only [zpow, eigenDoc, zpowComps, smul, madd, List.map_cons, List.map_nil, List.zipWith_cons_cons,
    List.zipWith_nil_left, h4, h5]
  mat_eq

theorem hpow_eq_eigen (E : Env A R) (h : Lawful E) (t s : A) :
    hpow E t s = eigenDoc E (hpowComps E 0 1) t s := by
  obtain ⟨h1, h4, h5, h2, h3⟩ := ph_facts h t s
  have hc := h.cos_def (t * E.halfA); have hs := h.sin_def (t * E.halfA)
  have hI := h.I_sq; have hh := h.half_def
  simp only [hpow, eigenDoc, hpowComps, smul, madd, List.map_cons, List.map_nil, List.zipWith_cons_cons,
    List.zipWith_nil_left, h1, h4, h5, hc, hs]
  mat_eq

theorem czpow_eq_eigen (E : Env A R) (h : Lawful E) (t s : A) :
    czpow E t s = eigenDoc E (czpowComps 0 1) t s := by
  obtain ⟨h1, h4, h5, h2, h3⟩ := ph_facts h t s
  simp only [czpow, diag, eigenDoc, czpowComps, smul, madd, List.map_cons, List.map_nil, List.zipWith_cons_cons,
    List.zipWith_nil_left, h4, h5, List.zipIdx_cons, List.zipIdx_nil, List.length_cons, List.length_nil,
    List.range_succ, List.range_zero, List.nil_append, List.cons_append]
  mat_eq

theorem zzpow_eq_eigen (E : Env A R) (h : Lawful E) (t s : A) :
    zzpow E t s = eigenDoc E (zzpowComps 0 1) t s := by
  obtain ⟨h1, h4, h5, h2, h3⟩ := ph_facts h t s
  simp only [zzpow, diag, eigenDoc, zzpowComps, smul, madd, List.map_cons, List.map_nil, List.zipWith_cons_cons,
    List.zipWith_nil_left, h4, h5, List.zipIdx_cons, List.zipIdx_nil, List.length_cons, List.length_nil,
    List.range_succ, List.range_zero, List.nil_append, List.cons_append]
  mat_eq

theorem swappow_eq_eigen (E : Env A R) (h : Lawful E) (t s : A) :
    swappow E t s = eigenDoc E (swappowComps E 0 1) t s := by
  obtain ⟨h1, h4, h5, h2, h3⟩ := ph_facts h t s
  have hc := h.cos_def (t * E.halfA); have hs := h.sin_def (t * E.halfA)
  have hI := h.I_sq; have hh := h.half_def
  simp only [swappow, xblock, eigenDoc, swappowComps, smul, madd, List.map_cons, List.map_nil, List.zipWith_cons_cons,
    List.zipWith_nil_left, h4, h5, hc, hs, List.getD_cons_zero, List.getD_cons_succ]
  mat_eq

theorem xxpow_eq_eigen (E : Env A R) (h : Lawful E) (t s : A) :
    xxpow E t s = eigenDoc E (xxpowComps E 0 1) t s := by
  obtain ⟨h1, h4, h5, h2, h3⟩ := ph_facts h t s
  have hc := h.cos_def (t * E.halfA); have hs := h.sin_def (t * E.halfA)
  have hI := h.I_sq; have hh := h.half_def
  simp only [xxpow, eigenDoc, xxpowComps, smul, madd, List.map_cons, List.map_nil, List.zipWith_cons_cons,
    List.zipWith_nil_left, h4, h5, hc, hs]
  mat_eq

theorem yypow_eq_eigen (E : Env A R) (h : Lawful E) (t s : A) :
    yypow E t s = eigenDoc E (yypowComps E 0 1) t s := by
  obtain ⟨h1, h4, h5, h2, h3⟩ := ph_facts h t s
  have hc := h.cos_def (t * E.halfA); have hs := h.sin_def (t * E.halfA)
  have hI := h.I_sq; have hh := h.half_def
  simp only [yypow, eigenDoc, yypowComps, smul, madd, List.map_cons, List.map_nil, List.zipWith_cons_cons,
    List.zipWith_nil_left, h4, h5, hc, hs]
  mat_eq

end

/-- the constants of the documentation in exact `Q8` arithmetic (function fields are unused by the
component tables) -/
def envQ8 : Env Rat Q8 where
  I := Q8.I
  half := Q8.half
  isq2 := Q8.isq2
  ph := fun _ => 0
  cosπ := fun _ => 0
  sinπ := fun _ => 0
  cis := fun _ => 0
  cos := fun _ => 0
  sin := fun _ => 0
  sqrt := fun _ => 0
  halfA := 1 / 2
  twoA := 2
  oneA := 1

end CirqVerif.GateDocs
