import CirqVerif.Proofs.GateDocs
import CirqVerif.Spec.GateDocs2
/-!
# C03 — the size-parameterised families (GateDocs2): consistency with the qubit transcriptions

The qudit clock and shift gates at `d = 2` are the documented `ZPowGate` / `XPowGate` matrices, for every
exponent and global shift; Kraus lists have the documented number of operators for every size.
-/
namespace CirqVerif.GateDocs
variable {A R : Type} [Lean.Grind.CommRing A] [Lean.Grind.CommRing R]

/-- what the rational-number functions of `Env2` are assumed to be at the arguments `d = 2` uses -/
structure Lawful2 (E : Env2 A R) : Prop extends Lawful E.toEnv where
  rat_0_2 : E.ratA 0 2 = 0
  rat_2_2 : E.ratA 2 2 = 1
  ratR_half : E.ratR 1 2 = E.half
  ph_one : E.ph 1 = -1

theorem C03_quditZ_qubit (E : Env2 A R) (h : Lawful2 E) (t s : A) :
    quditZ E 2 t s = zpow E.toEnv t s := by
  obtain ⟨h1, h4, h5, h2, h3⟩ := ph_facts h.toLawful t s
  simp only [quditZ, zpow, diag, smul, List.range, List.range.loop, List.map_cons, List.map_nil, List.zipIdx,
    List.length_cons, List.length_nil, h.rat_0_2, h.rat_2_2, h4, h5]
  simp
  refine ⟨?_, ?_⟩ <;> grind

theorem C03_quditX_qubit (E : Env2 A R) (h : Lawful2 E) (t s : A) :
    quditX E 2 t s = xpow E.toEnv t s := by
  obtain ⟨h1, h4, h5, h2, h3⟩ := ph_facts h.toLawful t s
  have hc := h.cos_def (t * E.halfA); have hs := h.sin_def (t * E.halfA)
  have hI := h.I_sq; have hh := h.half_def; have hz := h.ph_zero; have ho := h.ph_one
  simp only [quditX, xpow, smul, sumR, List.range, List.range.loop, List.map_cons, List.map_nil, List.foldl_cons, List.foldl_nil,
    Nat.reduceAdd, Nat.reduceSub, Nat.reduceMod, Nat.mul_zero, Nat.zero_mul, Nat.mul_one, Nat.one_mul,
    h.rat_0_2, h.rat_2_2, h.ratR_half, h1, h4, h5, hc, hs, hz, ho]
  mat_eq

/-- the `(Z, False, Z, False)` interaction is the documented `CZ**t` matrix -/
theorem C03_pauliInteraction_CZ (E : Env2 A R) (h : Lawful2 E) (t : A) :
    pauliInteraction E 3 false 3 false t = [[1, 0, 0, 0], [0, 1, 0, 0], [0, 0, 1, 0], [0, 0, 0, E.ph t]] := by
  have hh := h.half_def
  simp only [pauliInteraction, pauliProj, madd2, kron, smul, eye, pauliZ, List.range, List.range.loop, List.map_cons, List.map_nil,
    List.zipWith_cons_cons, List.zipWith_nil_left, List.flatMap_cons, List.flatMap_nil, List.append_nil, List.cons_append, List.nil_append,
    Bool.false_eq_true, if_false]
  simp only [if_true, Nat.zero_ne_one, Nat.one_ne_zero, if_false,
    show ¬((0 : Nat) = 2) from by decide, show ¬((0 : Nat) = 3) from by decide, show ¬((1 : Nat) = 2) from by decide, show ¬((1 : Nat) = 3) from by decide,
    show ¬((2 : Nat) = 0) from by decide, show ¬((2 : Nat) = 1) from by decide, show ¬((2 : Nat) = 3) from by decide,
    show ¬((3 : Nat) = 0) from by decide, show ¬((3 : Nat) = 1) from by decide, show ¬((3 : Nat) = 2) from by decide]
  mat_eq

theorem C03_depolarize_length (E : Env2 A R) (p : A) (n : Nat) : (depolarize E p n).length = 4 ^ n := by
  have : 1 ≤ 4 ^ n := Nat.pow_pos (by omega)
  simp [depolarize]; omega

theorem C03_resetD_length (d : Nat) : (resetD (R := R) d).length = d := by simp [resetD]
theorem C03_measureProjectors_length (N : Nat) : (measureProjectors (R := R) N).length = N := by simp [measureProjectors]
theorem C03_randomGate_length (E : Env2 A R) (p : A) (sub : List (M R)) (dim : Nat) :
    (randomGate E p sub dim).length = sub.length + 1 := by simp [randomGate]

/-- concrete permutation matrices (tests of the transcription, not general theorems) -/
example : qubitPermutation (R := Int) [1, 0] = [[1, 0, 0, 0], [0, 0, 1, 0], [0, 1, 0, 0], [0, 0, 0, 1]] := by decide
example : bitReverse 3 1 = 4 ∧ bitReverse 3 6 = 3 := by decide

end CirqVerif.GateDocs
