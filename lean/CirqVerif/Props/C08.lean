import CirqVerif.Proofs.Eigen
import CirqVerif.Proofs.Controlled
/-!
# C08 — property theorems (gate algebra)
-/
namespace CirqVerif.Eigen
variable {R : Type} [Lean.Grind.CommRing R]

/-- **Powers add** for every `EigenGate`: with orthogonal idempotent eigen-projectors (decided for the
tables extracted from the running code, `Obligations/C03.lean`) the matrices of `G**t₁` and `G**t₂`
multiply to the matrix of `G**(t₁+t₂)`, for all exponents and global shifts. -/
theorem C08_eigen_powers_add {A : Type} [Lean.Grind.CommRing A] (d n : Nat) (θ : Nat → A) (s : A) (ph : A → R)
    (hph : ∀ x y, ph (x + y) = ph x * ph y) (P : Nat → FMat R)
    (horth : ∀ k l, k < n → l < n → ∀ i j, fmul d (P k) (P l) i j = if k = l then P k i j else 0)
    (t₁ t₂ : A) (i j : Nat) :
    fmul d (eigenU n θ s ph P t₁) (eigenU n θ s ph P t₂) i j = eigenU n θ s ph P (t₁ + t₂) i j :=
  eigenU_add d n θ s ph hph P horth t₁ t₂ i j

/-- **Inverse undoes**: `U(t)·U(-t) = U(0) = Σₖ Pₖ` (the identity for complete projectors). -/
theorem C08_eigen_inverse {A : Type} [Lean.Grind.CommRing A] (d n : Nat) (θ : Nat → A) (s : A) (ph : A → R)
    (hph : ∀ x y, ph (x + y) = ph x * ph y) (hph0 : ph 0 = 1) (P : Nat → FMat R)
    (horth : ∀ k l, k < n → l < n → ∀ i j, fmul d (P k) (P l) i j = if k = l then P k i j else 0)
    (t : A) (i j : Nat) :
    fmul d (eigenU n θ s ph P t) (eigenU n θ s ph P (-t)) i j = sumL (List.range n) (fun k => P k i j) := by
  rw [eigenU_add d n θ s ph hph P horth]
  have : t + -t = 0 := by grind
  rw [this, eigenU_zero n θ s ph hph0 P]

end CirqVerif.Eigen

namespace CirqVerif.C08
open CirqVerif

/-- `ProductOfSums.expand()` denotes exactly the product set: a control tuple is in the expansion iff
every digit is one of the values allowed for its control. -/
theorem C08_cv_expand (p : PoS) (c : List Nat) : c ∈ expandPoS p ↔ satPoS p c = true := mem_product p c

/-- **Controlling by any control values gives the block matrix that applies the target exactly on the
selected control states** — as an action on states: on a basis index whose control digits are selected the
controlled operation acts as the target operation, on every other basis index as the identity.  Any
predicate on control tuples (product of sums, sum of products), any control / target axes, qudit shapes. -/
theorem C08_controlled_apply {R : Type} [Lean.Grind.CommRing R] (sat : List Nat → Bool) (U : Mat R)
    (shape caxes taxes : List Nat) (ψ : State R) (idx : Idx) (hv : ValidIdx shape idx)
    (hc : ∀ a ∈ caxes, a < idx.length) (ht : ∀ a ∈ taxes, a < idx.length) :
    applyOp (controlledMat sat caxes.length U)
        ((caxes ++ taxes).map (fun a => shape.getD a 1)) (caxes ++ taxes) ψ idx
      = if sat (getAxes idx caxes) then
          applyOp U (taxes.map (fun a => shape.getD a 1)) taxes ψ idx
        else ψ idx :=
  controlled_apply sat U shape caxes taxes ψ idx hv hc ht

end CirqVerif.C08
