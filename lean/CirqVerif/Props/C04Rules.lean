import CirqVerif.Props.C06Rules
import CirqVerif.Props.C19b
import CirqVerif.Spec.GateDocs2
/-!
# C04 — the decomposition rules of the gate library equal the documented matrices, for every parameter

`cirq.decompose_once(gate)` and `cirq.unitary(gate)` are two descriptions of one operation.  For the gate families
whose `_decompose_` is a fixed pattern of other library gates, the pattern is multiplied out here on the documented
matrices (Spec/GateDocs) — over any commutative ring with a lawful phase map (ℂ: NonVacuity/ComplexModel.lean), for
all exponents, phase exponents and global shifts — and shown to equal the documented matrix of the gate itself,
including the global phase.  `mul B A` is "first `A`, then `B`"; `kron` is big-endian (first qubit most significant).
The `decompose-rule` stream of the C04 harness checks that Cirq's `_decompose_` yields exactly these patterns.
-/
namespace CirqVerif.GateDocs
open CirqVerif.Qasm (LawfulQ LawfulQ8)
variable {A R : Type} [Lean.Grind.CommRing A] [Lean.Grind.CommRing R]

/-- values of the elementary functions at the quarter turn, from `e^{iπ/4} = (1 + i)/√2` -/
theorem quarter_facts {E : Env A R} (h : LawfulQ8 E) :
    E.ph (-(E.halfA * E.halfA)) = E.isq2 * (1 - E.I)
    ∧ E.cosπ (E.halfA * E.halfA) = E.isq2 ∧ E.sinπ (E.halfA * E.halfA) = E.isq2
    ∧ E.cosπ (-E.halfA * E.halfA) = E.isq2 ∧ E.sinπ (-E.halfA * E.halfA) = -E.isq2 := by
  have hI := h.I_sq; have hh := h.half_def; have hq := h.isq2_sq
  have hz := h.ph_quarter
  have hzi := ph_neg_mul h.toLawful (E.halfA * E.halfA)
  have hzb : E.ph (-(E.halfA * E.halfA)) = E.isq2 * (1 - E.I) := by
    rw [hz] at hzi
    have : E.isq2 * (1 + E.I) * (E.isq2 * (1 - E.I)) = 1 := by grind
    grind
  have e1 : -E.halfA * E.halfA = -(E.halfA * E.halfA) := by grind
  have e2 : -(-(E.halfA * E.halfA)) = E.halfA * E.halfA := by grind
  refine ⟨hzb, ?_, ?_, ?_, ?_⟩
  · rw [h.cos_def, hz, hzb]; grind
  · rw [h.sin_def, hz, hzb]; grind
  · rw [e1, h.cos_def, e2, hz, hzb]; grind
  · rw [e1, h.sin_def, e2, hz, hzb]; grind

/-- `PhasedXPowGate._decompose_`: `Z**-p`, then `XPowGate(t, s)`, then `Z**p` -/
theorem C04_decompose_phasedx (E : Env A R) (h : Lawful E) (t p s : A) :
    mul (zpow E p 0) (mul (xpow E t s) (zpow E (-p) 0)) = phasedx E t p s := by
  have h1 : E.ph (p * 0) = 1 := by rw [show p * 0 = (0 : A) by grind]; exact h.ph_zero
  have h1' : E.ph (-p * 0) = 1 := by rw [show -p * 0 = (0 : A) by grind]; exact h.ph_zero
  have h2 : E.ph (t * (s + E.halfA)) = E.ph (t * s) * E.ph (t * E.halfA) := by rw [← h.ph_add]; congr 1; grind
  have h3 : E.ph (t * E.halfA - p) = E.ph (t * E.halfA) * E.ph (-p) := by rw [← h.ph_add]; congr 1; grind
  have h4 : E.ph (t * E.halfA + p) = E.ph (t * E.halfA) * E.ph p := h.ph_add _ _
  have h5 := ph_neg_mul h p
  simp only [phasedx, zpow, xpow]
  unfold_mul
  simp only [h1, h1', h2, h3, h4]
  mat_eq

/-- `CXPowGate._decompose_`: `Y**-½` on the target, `CZPowGate(t, s)`, `Y**½` on the target -/
theorem C04_decompose_cxpow (E : Env A R) (h : LawfulQ8 E) (t s : A) :
    mul (kron (eye 2) (ypow E E.halfA 0)) (mul (czpow E t s) (kron (eye 2) (ypow E (-E.halfA) 0))) = cxpow E t s := by
  obtain ⟨hzb, c1, s1, c2, s2⟩ := quarter_facts h
  have hI := h.I_sq; have hh := h.half_def; have hq := h.isq2_sq
  have hz := h.ph_quarter
  have p1 : E.ph (E.halfA * (0 + E.halfA)) = E.isq2 * (1 + E.I) := by rw [show E.halfA * (0 + E.halfA) = E.halfA * E.halfA by grind]; exact hz
  have p2 : E.ph (-E.halfA * (0 + E.halfA)) = E.isq2 * (1 - E.I) := by rw [show -E.halfA * (0 + E.halfA) = -(E.halfA * E.halfA) by grind]; exact hzb
  have hc := h.cos_def (t * E.halfA); have hs := h.sin_def (t * E.halfA)
  have h5 := ph_neg_mul h.toLawful (t * E.halfA)
  have h6 := ph_half_sq h.toLawful t
  simp only [cxpow, czpow, ypow, xblock, blockBottomRight, kron, diag, eye, smul, List.map_cons, List.map_nil, List.flatMap_cons, List.flatMap_nil, List.append_nil,
    List.cons_append, List.nil_append, List.zipIdx, List.length_cons, List.length_nil, List.range, List.range.loop, c1, s1, c2, s2, p1, p2, hc, hs]
  simp
  unfold_mul
  generalize E.ph (t * E.halfA) = g at *
  generalize E.ph (-(t * E.halfA)) = gb at *
  mat_eq

macro "unfold_mats" : tactic => `(tactic|
  simp only [kron, diag, eye, smul, blockBottomRight, List.map_cons, List.map_nil, List.flatMap_cons, List.flatMap_nil, List.append_nil,
    List.cons_append, List.nil_append, List.zipIdx, List.length_cons, List.length_nil, List.range, List.range.loop])

/-- `ZZPowGate._decompose_`: `Z**t` on both qubits, then `CZPowGate(-2t, -s/2)` -/
theorem C04_decompose_zzpow (E : Env A R) (h : Lawful E) (t s : A) :
    mul (czpow E (-(t + t)) (-(s * E.halfA))) (kron (zpow E t 0) (zpow E t 0)) = zzpow E t s := by
  have h1 : E.ph (t * 0) = 1 := by rw [show t * 0 = (0 : A) by grind]; exact h.ph_zero
  have h2 : E.ph (-(t + t) * -(s * E.halfA)) = E.ph (t * s) := by
    congr 1; have := h.halfA_def; grind
  have h3 : E.ph (-(t + t)) * (E.ph t * E.ph t) = 1 := by
    rw [← h.ph_add, ← h.ph_add, show -(t + t) + (t + t) = (0:A) by grind]; exact h.ph_zero
  simp only [czpow, zpow, zzpow]
  unfold_mats
  simp
  unfold_mul
  simp only [h1, h2]
  mat_eq

/-- `XXPowGate._decompose_`: `Y**-½` on both qubits, `ZZPowGate(t, s)`, `Y**½` on both -/
theorem C04_decompose_xxpow (E : Env A R) (h : LawfulQ8 E) (t s : A) :
    mul (kron (ypow E E.halfA 0) (ypow E E.halfA 0)) (mul (zzpow E t s) (kron (ypow E (-E.halfA) 0) (ypow E (-E.halfA) 0)))
      = xxpow E t s := by
  obtain ⟨hzb, c1, s1, c2, s2⟩ := quarter_facts h
  have hI := h.I_sq; have hh := h.half_def; have hq := h.isq2_sq
  have hz := h.ph_quarter
  have p1 : E.ph (E.halfA * (0 + E.halfA)) = E.isq2 * (1 + E.I) := by rw [show E.halfA * (0 + E.halfA) = E.halfA * E.halfA by grind]; exact hz
  have p2 : E.ph (-E.halfA * (0 + E.halfA)) = E.isq2 * (1 - E.I) := by rw [show -E.halfA * (0 + E.halfA) = -(E.halfA * E.halfA) by grind]; exact hzb
  have hc := h.cos_def (t * E.halfA); have hs := h.sin_def (t * E.halfA)
  have h5 := ph_neg_mul h.toLawful (t * E.halfA)
  have h6 := ph_half_sq h.toLawful t
  simp only [xxpow, zzpow, ypow, c1, s1, c2, s2, p1, p2, hc, hs]
  unfold_mats
  simp
  unfold_mul
  rw [← h6]
  generalize E.ph (t * E.halfA) = g at *
  generalize E.ph (-(t * E.halfA)) = gb at *
  mat_eq

/-- `YYPowGate._decompose_`: `X**½` on both qubits, `ZZPowGate(t, s)`, `X**-½` on both -/
theorem C04_decompose_yypow (E : Env A R) (h : LawfulQ8 E) (t s : A) :
    mul (kron (xpow E (-E.halfA) 0) (xpow E (-E.halfA) 0)) (mul (zzpow E t s) (kron (xpow E E.halfA 0) (xpow E E.halfA 0)))
      = yypow E t s := by
  obtain ⟨hzb, c1, s1, c2, s2⟩ := quarter_facts h
  have hI := h.I_sq; have hh := h.half_def; have hq := h.isq2_sq
  have hz := h.ph_quarter
  have p1 : E.ph (E.halfA * (0 + E.halfA)) = E.isq2 * (1 + E.I) := by rw [show E.halfA * (0 + E.halfA) = E.halfA * E.halfA by grind]; exact hz
  have p2 : E.ph (-E.halfA * (0 + E.halfA)) = E.isq2 * (1 - E.I) := by rw [show -E.halfA * (0 + E.halfA) = -(E.halfA * E.halfA) by grind]; exact hzb
  have hc := h.cos_def (t * E.halfA); have hs := h.sin_def (t * E.halfA)
  have h5 := ph_neg_mul h.toLawful (t * E.halfA)
  have h6 := ph_half_sq h.toLawful t
  simp only [yypow, zzpow, xpow, c1, s1, c2, s2, p1, p2, hc, hs]
  unfold_mats
  simp
  unfold_mul
  rw [← h6]
  generalize E.ph (t * E.halfA) = g at *
  generalize E.ph (-(t * E.halfA)) = gb at *
  mat_eq

/-- the matrix of a two-qubit gate applied to the qubits in the other order -/
def revq (m : M R) : M R :=
  [0, 2, 1, 3].map (fun i => [0, 2, 1, 3].map (fun j => (m.getD i []).getD j 0))

/-- `SwapPowGate._decompose_`: `CNOT(a, b)`, `CNotPowGate(t, s)(b, a)`, `CNOT(a, b)` -/
theorem C04_decompose_swappow (E : Env A R) (h : LawfulQ E) (t s : A) :
    mul (cxpow E 1 0) (mul (revq (cxpow E t s)) (cxpow E 1 0)) = swappow E t s := by
  have hI := h.I_sq; have hh := h.half_def
  have h0 : E.ph (1 * 0) = 1 := by rw [show (1:A) * 0 = 0 by grind]; exact h.ph_zero
  have h1 := Qasm.ph_half_one h
  have h2 := Qasm.ph_neg_half h
  have hc : E.cosπ (1 * E.halfA) = 0 := by rw [h.cos_def, h1, h2]; grind
  have hs : E.sinπ (1 * E.halfA) = 1 := by rw [h.sin_def, h1, h2]; grind
  simp only [cxpow, swappow, xblock, revq, hc, hs, h0, h1]
  unfold_mats
  simp
  unfold_mul
  mat_eq

theorem zero_add_r (a : R) : 0 + a = a := by grind
theorem neg_zero_r : -(0 : R) = 0 := by grind

/-- products evaluated innermost first, zeros and ones simplified on the way -/
macro "eval_mul" : tactic => `(tactic|
  simp only [mul, smul, List.map_cons, List.map_nil, List.headD_cons, List.length_cons, List.length_nil, List.range, List.range.loop,
    List.getD_cons_zero, List.getD_cons_succ, List.zipWith_cons_cons, List.zipWith_nil_left, List.foldl_cons, List.foldl_nil, Nat.reduceAdd,
    Lean.Grind.Semiring.mul_zero, Lean.Grind.Semiring.zero_mul, Lean.Grind.Semiring.add_zero, zero_add_r, Lean.Grind.Semiring.mul_one,
    Lean.Grind.Semiring.one_mul, neg_zero_r])

/-- `ISwapPowGate._decompose_`: `CNOT(a,b)`, `H(a)`, `CNOT(b,a)`, `ZPowGate(t/2, s)(a)`, `CNOT(b,a)`, `ZPowGate(-t/2, -s)(a)`, `H(a)`, `CNOT(a,b)` -/
theorem C04_decompose_iswappow (E : Env A R) (h : LawfulQ E) (t s : A) :
    mul (cxpow E 1 0) (mul (kron (hpow E 1 0) (eye 2)) (mul (kron (zpow E (-(t * E.halfA)) (-s)) (eye 2)) (mul (revq (cxpow E 1 0))
      (mul (kron (zpow E (t * E.halfA) s) (eye 2)) (mul (revq (cxpow E 1 0)) (mul (kron (hpow E 1 0) (eye 2)) (cxpow E 1 0)))))))
      = iswappow E t s := by
  have hI := h.I_sq; have hh := h.half_def; have hq := h.isq2_sq
  have h0 : E.ph (1 * 0) = 1 := by rw [show (1:A) * 0 = 0 by grind]; exact h.ph_zero
  have h1 := Qasm.ph_half_one h
  have h2 := Qasm.ph_neg_half h
  have h1' : E.ph (1 * (0 + E.halfA)) = E.I := by rw [show (1:A) * (0 + E.halfA) = 1 * E.halfA by grind]; exact h1
  have hc : E.cosπ (1 * E.halfA) = 0 := by rw [h.cos_def, h1, h2]; grind
  have hs : E.sinπ (1 * E.halfA) = 1 := by rw [h.sin_def, h1, h2]; grind
  have hct := h.cos_def (t * E.halfA); have hst := h.sin_def (t * E.halfA)
  have h5 := ph_neg_mul h.toLawful (t * E.halfA)
  have h7 : E.ph (-(t * E.halfA) * -s) * E.ph (t * E.halfA * s) = E.ph (t * s) := by
    rw [← h.ph_add]; congr 1; have := h.halfA_def; grind
  simp only [cxpow, iswappow, hpow, zpow, xblock, revq, hc, hs, h0, h1, h1', hct, hst]
  unfold_mats
  simp
  eval_mul
  generalize E.ph (t * E.halfA) = g at *
  generalize E.ph (-(t * E.halfA)) = gb at *
  generalize E.ph (-(t * E.halfA) * -s) = u at *
  generalize E.ph (t * E.halfA * s) = v at *
  generalize E.ph (t * s) = r at *
  mat_eq

/-- `HPowGate._decompose_` (general exponent): `Y**¼`, `XPowGate(t, s)`, `Y**-¼` -/
theorem C04_decompose_hpow (E : Env A R) (h : LawfulQ8 E) (t s : A) :
    mul (ypow E (-(E.halfA * E.halfA)) 0) (mul (xpow E t s) (ypow E (E.halfA * E.halfA) 0)) = hpow E t s := by
  have hI := h.I_sq; have hh := h.half_def; have hq := h.isq2_sq
  have hw : E.ph (E.halfA * E.halfA * E.halfA) * E.ph (E.halfA * E.halfA * E.halfA) = E.isq2 * (1 + E.I) := by
    rw [← h.ph_add, ← h.ph_quarter]; congr 1; have := h.halfA_def; grind
  have hwi : E.ph (E.halfA * E.halfA * E.halfA) * E.ph (-(E.halfA * E.halfA * E.halfA)) = 1 := ph_neg_mul h.toLawful _
  have hwb : E.ph (-(E.halfA * E.halfA * E.halfA)) * E.ph (-(E.halfA * E.halfA * E.halfA)) = E.isq2 * (1 - E.I) := by
    grind
  have p1 : E.ph (E.halfA * E.halfA * (0 + E.halfA)) = E.ph (E.halfA * E.halfA * E.halfA) := by congr 1; grind
  have p2 : E.ph (-(E.halfA * E.halfA) * (0 + E.halfA)) = E.ph (-(E.halfA * E.halfA * E.halfA)) := by congr 1; grind
  have hc1 : E.cosπ (E.halfA * E.halfA * E.halfA)
      = (E.ph (E.halfA * E.halfA * E.halfA) + E.ph (-(E.halfA * E.halfA * E.halfA))) * E.half := h.cos_def _
  have hs1 : E.sinπ (E.halfA * E.halfA * E.halfA)
      = (E.ph (-(E.halfA * E.halfA * E.halfA)) - E.ph (E.halfA * E.halfA * E.halfA)) * E.half * E.I := h.sin_def _
  have hc2 : E.cosπ (-(E.halfA * E.halfA) * E.halfA)
      = (E.ph (E.halfA * E.halfA * E.halfA) + E.ph (-(E.halfA * E.halfA * E.halfA))) * E.half := by
    rw [h.cos_def, show -(-(E.halfA * E.halfA) * E.halfA) = E.halfA * E.halfA * E.halfA by grind,
      show -(E.halfA * E.halfA) * E.halfA = -(E.halfA * E.halfA * E.halfA) by grind]; grind
  have hs2 : E.sinπ (-(E.halfA * E.halfA) * E.halfA)
      = (E.ph (E.halfA * E.halfA * E.halfA) - E.ph (-(E.halfA * E.halfA * E.halfA))) * E.half * E.I := by
    rw [h.sin_def, show -(-(E.halfA * E.halfA) * E.halfA) = E.halfA * E.halfA * E.halfA by grind,
      show -(E.halfA * E.halfA) * E.halfA = -(E.halfA * E.halfA * E.halfA) by grind]
  simp only [hpow, xpow, ypow, p1, p2, hc1, hs1, hc2, hs2]
  eval_mul
  generalize E.ph (E.halfA * E.halfA * E.halfA) = w at *
  generalize E.ph (-(E.halfA * E.halfA * E.halfA)) = wb at *
  generalize E.cosπ (t * E.halfA) = c at *
  generalize E.sinπ (t * E.halfA) = sn at *
  generalize E.ph (t * (s + E.halfA)) = f at *
  mat_eq

/-- `HPowGate._decompose_` at exponent 1: `Y**½`, then `XPowGate(exponent=1, global_shift=s-¼)` -/
theorem C04_decompose_hpow_one (E : Env A R) (h : LawfulQ8 E) (s : A) :
    mul (xpow E 1 (s - E.halfA * E.halfA)) (ypow E E.halfA 0) = hpow E 1 s := by
  obtain ⟨hzb, c1, s1, c2, s2⟩ := quarter_facts h
  have hI := h.I_sq; have hh := h.half_def; have hq := h.isq2_sq
  have hz := h.ph_quarter
  have h1 := Qasm.ph_half_one h.toLawfulQ
  have h2 := Qasm.ph_neg_half h.toLawfulQ
  have hc : E.cosπ (1 * E.halfA) = 0 := by rw [h.cos_def, h1, h2]; grind
  have hs : E.sinπ (1 * E.halfA) = 1 := by rw [h.sin_def, h1, h2]; grind
  have p1 : E.ph (E.halfA * (0 + E.halfA)) = E.isq2 * (1 + E.I) := by rw [show E.halfA * (0 + E.halfA) = E.halfA * E.halfA by grind]; exact hz
  have p3 : E.ph (1 * (s - E.halfA * E.halfA + E.halfA)) = E.ph s * (E.isq2 * (1 - E.I)) * E.I := by
    rw [show (1:A) * (s - E.halfA * E.halfA + E.halfA) = s + -(E.halfA * E.halfA) + E.halfA by grind, h.ph_add, h.ph_add, hzb, h.ph_half]
  have p4 : E.ph (1 * (s + E.halfA)) = E.ph s * E.I := by
    rw [show (1:A) * (s + E.halfA) = s + E.halfA by grind, h.ph_add, h.ph_half]
  simp only [hpow, xpow, ypow, hc, hs, c1, s1, p1, p3, p4]
  eval_mul
  mat_eq

/-- `PhasedXZGate._decompose_`: `Z**-a`, `X**x`, `Z**(a+z)` -/
theorem C04_decompose_phasedxz (E : Env A R) (h : Lawful E) (x z a : A) :
    mul (zpow E (a + z) 0) (mul (xpow E x 0) (zpow E (-a) 0)) = phasedxz E x z a := by
  have h1 : E.ph ((a + z) * 0) = 1 := by rw [show (a + z) * 0 = (0 : A) by grind]; exact h.ph_zero
  have h1' : E.ph (-a * 0) = 1 := by rw [show -a * 0 = (0 : A) by grind]; exact h.ph_zero
  have h2 : E.ph (x * (0 + E.halfA)) = E.ph (x * E.halfA) := by congr 1; grind
  have h3 : E.ph (x * E.halfA - a) = E.ph (x * E.halfA) * E.ph (-a) := by rw [← h.ph_add]; congr 1; grind
  have h4 : E.ph (x * E.halfA + z + a) = E.ph (x * E.halfA) * E.ph (a + z) := by rw [← h.ph_add]; congr 1; grind
  have h6 : E.ph (x * E.halfA + z) * E.ph a = E.ph (x * E.halfA) * E.ph (a + z) := by rw [← h.ph_add, ← h.ph_add]; congr 1; grind
  have h5 := ph_neg_mul h a
  simp only [phasedxz, zpow, xpow, h1, h1', h2, h3, h4]
  eval_mul
  generalize E.ph (x * E.halfA + z) = q at *
  mat_eq

/-- `PhasedISwapPowGate._decompose_`: `Z**p ⊗ Z**-p`, `ISwapPowGate(t)`, `Z**-p ⊗ Z**p` -/
theorem C04_decompose_phasediswap (E : Env A R) (h : Lawful E) (p t : A) (htwo : E.twoA = 1 + 1) :
    mul (kron (zpow E (-p) 0) (zpow E p 0)) (mul (iswappow E t 0) (kron (zpow E p 0) (zpow E (-p) 0))) = phasediswap E p t := by
  have h1 : E.ph (p * 0) = 1 := by rw [show p * 0 = (0 : A) by grind]; exact h.ph_zero
  have h1' : E.ph (-p * 0) = 1 := by rw [show -p * 0 = (0 : A) by grind]; exact h.ph_zero
  have h1'' : E.ph (t * 0) = 1 := by rw [show t * 0 = (0 : A) by grind]; exact h.ph_zero
  have h2 : E.ph (E.twoA * p) = E.ph p * E.ph p := by rw [← h.ph_add]; congr 1; grind
  have h3 : E.ph (-(E.twoA * p)) = E.ph (-p) * E.ph (-p) := by rw [← h.ph_add]; congr 1; grind
  have h5 := ph_neg_mul h p
  simp only [phasediswap, iswappow, zpow, h1, h1', h1'', h2, h3]
  unfold_mats
  eval_mul
  mat_eq

/-- `FSimGate._decompose_`: `XXPowGate(a, -½)`, `YYPowGate(a, -½)`, `CZ**-b` where `a = θ/π`, `b = φ/π` are the half-turn counts of the
angles (hypotheses `hc`, `hs`, `hp` say so) -/
theorem C04_decompose_fsim (E : Env A R) (h : Lawful E) (θ φ a b : A)
    (hc : E.cos θ = E.cosπ a) (hs : E.sin θ = E.sinπ a) (hp : E.cis (-φ) = E.ph (-b)) :
    mul (czpow E (-b) 0) (mul (yypow E a (-E.halfA)) (xxpow E a (-E.halfA))) = fsim E θ φ := by
  have hI := h.I_sq; have hh := h.half_def
  have h1 : E.ph (-b * 0) = 1 := by rw [show -b * 0 = (0 : A) by grind]; exact h.ph_zero
  have h2 : E.ph (a * -E.halfA) = E.ph (-(a * E.halfA)) := by congr 1; grind
  have h5 := ph_neg_mul h (a * E.halfA)
  have h6 := ph_half_sq h a
  have hca := h.cos_def a; have hsa := h.sin_def a
  have hch := h.cos_def (a * E.halfA); have hsh := h.sin_def (a * E.halfA)
  have h7 : E.ph (-a) = E.ph (-(a * E.halfA)) * E.ph (-(a * E.halfA)) := by
    rw [← h.ph_add]; congr 1; have := h.halfA_def; grind
  simp only [fsim, czpow, yypow, xxpow, hc, hs, hp, h1, h2, hca, hsa, hch, hsh, h7]
  rw [← h6]
  unfold_mats
  eval_mul
  generalize E.ph (a * E.halfA) = g at *
  generalize E.ph (-(a * E.halfA)) = gb at *
  mat_eq

theorem hpow_one (E : Env A R) (h : LawfulQ E) : hpow E 1 0 = [[E.isq2, E.isq2], [E.isq2, -E.isq2]] := by
  have hI := h.I_sq; have hh := h.half_def
  have h1 := Qasm.ph_half_one h
  have h2 := Qasm.ph_neg_half h
  have h1' : E.ph (1 * (0 + E.halfA)) = E.I := by rw [show (1:A) * (0 + E.halfA) = 1 * E.halfA by grind]; exact h1
  have hc : E.cosπ (1 * E.halfA) = 0 := by rw [h.cos_def, h1, h2]; grind
  have hs : E.sinπ (1 * E.halfA) = 1 := by rw [h.sin_def, h1, h2]; grind
  simp only [hpow, hc, hs, h1', smul, List.map_cons, List.map_nil]
  mat_eq

/-- `CCXPowGate._decompose_`: `H` on the target, `CCZPowGate(t, s)`, `H` on the target -/
theorem C04_decompose_ccxpow (E : Env A R) (h : LawfulQ E) (t s : A) :
    mul (kron (eye 4) (hpow E 1 0)) (mul (cczpow E t s) (kron (eye 4) (hpow E 1 0))) = ccxpow E t s := by
  have hI := h.I_sq; have hh := h.half_def; have hq := h.isq2_sq
  have hc := h.cos_def (t * E.halfA); have hs := h.sin_def (t * E.halfA)
  have h5 := ph_neg_mul h.toLawful (t * E.halfA)
  have h6 := ph_half_sq h.toLawful t
  rw [hpow_one E h]
  simp only [ccxpow, cczpow, xblock, hc, hs]
  rw [← h6]
  unfold_mats
  simp
  eval_mul
  generalize E.ph (t * E.halfA) = g at *
  generalize E.ph (-(t * E.halfA)) = gb at *
  mat_eq

def cnotM : M R := [[1, 0, 0, 0], [0, 1, 0, 0], [0, 0, 0, 1], [0, 0, 1, 0]]

theorem cxpow_one (E : Env A R) (h : LawfulQ E) : cxpow E 1 0 = (cnotM : M R) := by
  have hI := h.I_sq; have hh := h.half_def
  have h0 : E.ph (1 * 0) = 1 := by rw [show (1:A) * 0 = 0 by grind]; exact h.ph_zero
  have h1 := Qasm.ph_half_one h
  have h2 := Qasm.ph_neg_half h
  have hc : E.cosπ (1 * E.halfA) = 0 := by rw [h.cos_def, h1, h2]; grind
  have hs : E.sinπ (1 * E.halfA) = 1 := by rw [h.sin_def, h1, h2]; grind
  simp only [cxpow, cnotM, xblock, hc, hs, h0, h1]
  unfold_mats
  simp
  repeat' constructor
  all_goals grind

/-- `CCZPowGate._decompose_` (line connectivity): with `p = T**t`: `p` on all three qubits, then four sweeps `CNOT(a,b), CNOT(b,c)`
separated by `p⁻¹(b), p(c)` / `p⁻¹(c)` / `p⁻¹(c)`, and the global phase `e^{iπts}` -/
theorem C04_decompose_cczpow (E : Env A R) (h : LawfulQ E) (t s : A) :
    let q := E.halfA * E.halfA
    let p : M R := zpow E (t * q) 0
    let pinv : M R := zpow E (-(t * q)) 0
    let I2 : M R := eye 2
    let sweep : M R := mul (kron I2 (cxpow E 1 0)) (kron (cxpow E 1 0) I2)
    smul (E.ph (t * s))
      (mul sweep (mul (kron (kron I2 I2) pinv) (mul sweep (mul (kron (kron I2 I2) pinv) (mul sweep
        (mul (kron (kron I2 pinv) p) (mul sweep (kron (kron p p) p))))))))
      = cczpow E t s := by
  intro q p pinv I2 sweep
  have h0 : E.ph (t * q * 0) = 1 := by rw [show t * q * 0 = (0 : A) by grind]; exact h.ph_zero
  have h0' : E.ph (-(t * q) * 0) = 1 := by rw [show -(t * q) * 0 = (0 : A) by grind]; exact h.ph_zero
  have h4 : E.ph (t * q) * E.ph (t * q) * (E.ph (t * q) * E.ph (t * q)) = E.ph t := by
    rw [← h.ph_add, ← h.ph_add]; congr 1
    have := h.halfA_def; grind
  have h5 := ph_neg_mul h.toLawful (t * q)
  simp only [sweep, p, pinv, I2, q, cxpow_one E h, cnotM, zpow, cczpow, h0, h0']
  rw [← h4]
  unfold_mats
  simp
  eval_mul
  generalize E.ph (t * (E.halfA * E.halfA)) = g at *
  generalize E.ph (-(t * (E.halfA * E.halfA))) = gb at *
  mat_eq

/-- `ControlledGate(XPowGate(t, s))` decomposes into `CNOT**t` and `Z**(t·s)` on the control: the global shift of the sub-gate is a
relative phase of the control -/
theorem C04_controlled_shift_x (E : Env A R) (h : Lawful E) (t s : A) :
    blockBottomRight 4 (xpow E t s) = mul (kron (zpow E (t * s) 0) (eye 2)) (cxpow E t 0) := by
  have h0 : E.ph (t * 0) = 1 := by rw [show t * 0 = (0 : A) by grind]; exact h.ph_zero
  have h0' : E.ph (t * s * 0) = 1 := by rw [show t * s * 0 = (0 : A) by grind]; exact h.ph_zero
  have h2 : E.ph (t * (s + E.halfA)) = E.ph (t * s) * E.ph (t * E.halfA) := by rw [← h.ph_add]; congr 1; grind
  simp only [xpow, cxpow, zpow, xblock, h0, h0', h2]
  unfold_mats
  simp
  eval_mul
  mat_eq

/-- `ControlledGate(ZPowGate(t, s))` decomposes into `CZ**t` and `Z**(t·s)` on the control -/
theorem C04_controlled_shift_z (E : Env A R) (h : Lawful E) (t s : A) :
    blockBottomRight 4 (zpow E t s) = mul (kron (zpow E (t * s) 0) (eye 2)) (czpow E t 0) := by
  have h0 : E.ph (t * 0) = 1 := by rw [show t * 0 = (0 : A) by grind]; exact h.ph_zero
  have h0' : E.ph (t * s * 0) = 1 := by rw [show t * s * 0 = (0 : A) by grind]; exact h.ph_zero
  simp only [czpow, zpow, h0, h0']
  unfold_mats
  simp
  eval_mul <;> mat_eq

/-- `ControlledGate(CZPowGate(t, s))` decomposes into `CCZ**t` and `Z**(t·s)` on the (new) control -/
theorem C04_controlled_shift_cz (E : Env A R) (h : Lawful E) (t s : A) :
    blockBottomRight 8 (czpow E t s) = mul (kron (zpow E (t * s) 0) (eye 4)) (cczpow E t 0) := by
  have h0 : E.ph (t * 0) = 1 := by rw [show t * 0 = (0 : A) by grind]; exact h.ph_zero
  have h0' : E.ph (t * s * 0) = 1 := by rw [show t * s * 0 = (0 : A) by grind]; exact h.ph_zero
  simp only [czpow, cczpow, zpow, h0, h0']
  unfold_mats
  simp
  eval_mul <;> mat_eq

/-- `CYPowGate._decompose_`: `X**½` on the target, `CZPowGate(t, s)`, `X**-½` on the target -/
theorem C04_decompose_cypow (E : Env2 A R) (h : LawfulQ8 E.toEnv) (t s : A) :
    mul (kron (eye 2) (xpow E.toEnv (-E.halfA) 0)) (mul (czpow E.toEnv t s) (kron (eye 2) (xpow E.toEnv E.halfA 0))) = cypow E t s := by
  obtain ⟨hzb, c1, s1, c2, s2⟩ := quarter_facts h
  have hI := h.I_sq; have hh := h.half_def; have hq := h.isq2_sq
  have hz := h.ph_quarter
  have p1 : E.ph (E.halfA * (0 + E.halfA)) = E.isq2 * (1 + E.I) := by rw [show E.halfA * (0 + E.halfA) = E.halfA * E.halfA by grind]; exact hz
  have p2 : E.ph (-E.halfA * (0 + E.halfA)) = E.isq2 * (1 - E.I) := by rw [show -E.halfA * (0 + E.halfA) = -(E.halfA * E.halfA) by grind]; exact hzb
  have hc := h.cos_def (t * E.halfA); have hs := h.sin_def (t * E.halfA)
  have h5 := ph_neg_mul h.toLawful (t * E.halfA)
  have h6 := ph_half_sq h.toLawful t
  simp only [cypow, czpow, xpow, yblock, c1, s1, c2, s2, p1, p2, hc, hs]
  rw [← h6]
  unfold_mats
  simp
  eval_mul
  generalize E.ph (t * E.halfA) = g at *
  generalize E.ph (-(t * E.halfA)) = gb at *
  mat_eq

end CirqVerif.GateDocs
