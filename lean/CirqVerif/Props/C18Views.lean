import CirqVerif.Model.C18
import CirqVerif.Props.C18
/-!
# C18 — property theorems (views of a record table, bit packing)
-/
namespace CirqVerif.C18
open CirqVerif.Digits

theorem byte_roundtrip (c : List Bool) (h : c.length ≤ 8) :
    intToBits (byteOfBits c) 8 = c ++ List.replicate (8 - c.length) false := by
  unfold byteOfBits
  have hl : (c ++ List.replicate (8 - c.length) false).length = 8 := by simp; omega
  have := C18_bits_int_bits (c ++ List.replicate (8 - c.length) false)
  rw [hl] at this; exact this

theorem unpack_chunks (fuel : Nat) (bs : List Bool) (h : bs.length ≤ fuel) :
    (((chunk8 fuel bs).map (fun c => intToBits (byteOfBits c) 8)).flatten).take bs.length = bs := by
  induction fuel generalizing bs with
  | zero =>
    have : bs = [] := List.eq_nil_of_length_eq_zero (by omega)
    subst this; rfl
  | succ fuel ih =>
    cases hb : bs with
    | nil => simp [chunk8]
    | cons b rest =>
      rw [← hb]
      have hne : bs ≠ [] := by rw [hb]; simp
      have hc : chunk8 (fuel + 1) bs = bs.take 8 :: chunk8 fuel (bs.drop 8) := by
        rw [hb]; simp [chunk8]
      rw [hc, List.map_cons, List.flatten_cons, byte_roundtrip _ (by simp; omega)]
      by_cases h8 : bs.length ≤ 8
      · rw [List.take_of_length_le h8, List.append_assoc, List.take_left']
        rfl
      · have hlen : (bs.take 8).length = 8 := by simp; omega
        rw [hlen]
        simp only [Nat.sub_self, List.replicate_zero, List.append_nil]
        have hsplit : bs.length = (bs.take 8).length + (bs.drop 8).length := by simp; omega
        have hd := ih (bs.drop 8) (by simp; omega)
        rw [hsplit, List.take_append, Nat.add_sub_cancel_left, hd,
          List.take_of_length_le (by omega)]
        exact List.take_append_drop 8 bs

/-- `_unpack_bits(_pack_bits(bits), shape)` returns the original bits for **every** length
(np.packbits is big-endian within a byte and zero-pads the last byte). -/
theorem C18_unpack_pack (bits : List Bool) : unpackBits (packBits bits) bits.length = bits := by
  unfold unpackBits packBits
  rw [List.map_map]
  exact unpack_chunks bits.length bits (Nat.le_refl _)

/-- every packed byte is a byte -/
theorem C18_pack_bytes_lt (bits : List Bool) : ∀ b ∈ packBits bits, b < 256 := by
  intro b hb
  unfold packBits at hb
  obtain ⟨c, hc, rfl⟩ := List.mem_map.mp hb
  have hlen : c.length ≤ 8 := by
    clear hb
    generalize bits.length = fuel at hc
    induction fuel generalizing bits with
    | zero => simp [chunk8] at hc
    | succ fuel ih =>
      cases bits with
      | nil => simp [chunk8] at hc
      | cons x xs =>
        simp only [chunk8, List.mem_cons] at hc
        rcases hc with rfl | hc
        · simp; omega
        · exact ih _ hc
  unfold byteOfBits
  have := bitsToInt_lt (c ++ List.replicate (8 - c.length) false)
  have hl : (c ++ List.replicate (8 - c.length) false).length = 8 := by simp; omega
  rw [hl] at this; omega

/-- measurements ↔ records with one instance are inverse views. -/
theorem C18_measurements_of_records (ms : List Row) :
    measurements 1 (recordsOfMeasurements ms) = .ok ms := by
  unfold measurements recordsOfMeasurements
  simp only [ne_eq, not_true_eq_false, if_false, List.map_map]
  congr 1
  induction ms with
  | nil => rfl
  | cons m ms ih => simp_all [Function.comp]

theorem C18_measurements_rejects_repeated (n : Nat) (recs : Records) (h : n ≠ 1) :
    measurements n recs = .error .repeatedKey := by
  simp [measurements, h]

/-! counters -/

theorem counterAdd_total [DecidableEq α] (c : List (α × Nat)) (x : α) :
    ((counterAdd c x).map (·.2)).sum = (c.map (·.2)).sum + 1 := by
  induction c with
  | nil => simp [counterAdd]
  | cons p rest ih =>
    obtain ⟨y, k⟩ := p
    simp only [counterAdd]
    split
    · simp; omega
    · simp [ih]; omega

/-- a histogram counts every repetition exactly once -/
theorem C18_counter_total [DecidableEq α] (xs : List α) :
    ((counter xs).map (·.2)).sum = xs.length := by
  unfold counter
  suffices h : ∀ c : List (α × Nat), ((xs.foldl counterAdd c).map (·.2)).sum = (c.map (·.2)).sum + xs.length by
    simpa using h []
  induction xs with
  | nil => simp
  | cons x xs ih => intro c; simp [ih, counterAdd_total]; omega

def lookup [DecidableEq α] (c : List (α × Nat)) (x : α) : Nat :=
  match c with
  | [] => 0
  | (y, k) :: rest => if y = x then k else lookup rest x

theorem lookup_counterAdd [DecidableEq α] (c : List (α × Nat)) (x y : α) :
    lookup (counterAdd c x) y = lookup c y + (if x = y then 1 else 0) := by
  induction c with
  | nil => simp [counterAdd, lookup]
  | cons p rest ih =>
    obtain ⟨z, k⟩ := p
    simp only [counterAdd]
    by_cases hzx : z = x
    · subst hzx
      by_cases hzy : z = y <;> simp [lookup, hzy]
    · by_cases hzy : z = y
      · subst hzy
        have : ¬ x = z := fun h => hzx h.symm
        simp [lookup, hzx, this]
      · simp [lookup, hzx, hzy, ih]

/-- the count a histogram reports for a value is the number of repetitions folding to it -/
theorem C18_counter_count [DecidableEq α] (xs : List α) (y : α) :
    lookup (counter xs) y = xs.count y := by
  unfold counter
  suffices h : ∀ c : List (α × Nat), lookup (xs.foldl counterAdd c) y = lookup c y + xs.count y by
    simpa [lookup] using h []
  induction xs with
  | nil => simp
  | cons x xs ih =>
    intro c
    simp only [List.foldl_cons, ih, lookup_counterAdd, List.count_cons]
    by_cases h : x = y <;> simp [h] <;> omega

/-- data-frame cell = big-endian base-2 value of the row, exact for any width -/
theorem C18_dataframe_cell (row : Row) : dataframeCell row = val2 row 0 := by
  have hsum : ∀ (l : List Nat) (a : Nat), l.foldl (· + ·) a = a + l.foldl (· + ·) 0 := by
    intro l
    induction l with
    | nil => simp
    | cons x xs ih => intro a; simp only [List.foldl_cons]; rw [ih, ih (0 + x)]; omega
  have hval : ∀ (l : List Nat) (a : Nat), val2 l a = a * 2 ^ l.length + val2 l 0 := by
    intro l
    induction l with
    | nil => simp [val2]
    | cons x xs ih =>
      intro a
      simp only [val2, List.foldl_cons, List.length_cons] at *
      rw [ih, ih (2 * 0 + x)]
      simp [Nat.pow_succ, Nat.add_mul]
      rw [Nat.mul_comm 2 a, Nat.mul_assoc, Nat.mul_comm 2]
      omega
  induction row with
  | nil => simp [dataframeCell, val2]
  | cons d row ih =>
    unfold dataframeCell at *
    simp only [List.length_cons, List.range_succ_eq_map, List.zipWith_cons_cons, List.foldl_cons,
      List.zipWith_map_left]
    rw [hsum]
    have : List.zipWith (fun a b => 2 ^ (row.length + 1 - 1 - (a + 1)) * b) (List.range row.length) row
        = List.zipWith (fun i d => 2 ^ (row.length - 1 - i) * d) (List.range row.length) row := by
      apply List.ext_getElem
      · simp
      · intro i h1 h2
        simp only [List.getElem_zipWith, List.getElem_range]
        have : row.length + 1 - 1 - (i + 1) = row.length - 1 - i := by omega
        rw [this]
    simp only [Nat.succ_eq_add_one] at *
    rw [this, ih]
    show _ = val2 (d :: row) 0
    rw [show val2 (d :: row) 0 = val2 row (2 * 0 + d) from rfl, hval]
    simp [Nat.mul_comm, hval row d]

/-- for 0/1 rows the data-frame cell is `big_endian_bits_to_int` of the row -/
theorem C18_dataframe_cell_bits (bits : List Bool) :
    dataframeCell (bits.map (fun b => if b then 1 else 0)) = bitsToInt bits := by
  rw [C18_dataframe_cell]
  unfold val2 bitsToInt
  rw [List.foldl_map]

/-- `Result.__add__`: repetitions are appended, nothing reordered or lost. -/
theorem C18_add_records (s : Nat × Nat) (a b : Records) :
    addRecords s s a b = .ok (a ++ b) := by simp [addRecords]

theorem C18_add_rejects_shape (s t : Nat × Nat) (a b : Records) (h : s ≠ t) :
    addRecords s t a b = .error .shapeMismatch := by simp [addRecords, h]

end CirqVerif.C18
