import CirqVerif.Model.C20
/-!
# C20 — property theorems (invariants over all schedules / fault sequences)
-/
namespace CirqVerif.C20

/-! ### Collector -/

def tags (js : List Job) : List Nat := js.map (·.tag)

/-- all job tags the collector knows of are distinct (the jobs handed out by `next_job` are distinct jobs) -/
def allTags (s : CState) : List Nat := s.delivered ++ tags s.running ++ tags s.queued ++ tags s.source.flatten

/-- bookkeeping invariant: concurrency bound; every started job is either delivered or still running;
no tag occurs twice anywhere -/
structure Inv (conc : Nat) (s : CState) : Prop where
  bound : s.running.length ≤ conc
  ledger : s.started.Perm (s.delivered ++ tags s.running)
  nodup : (allTags s).Nodup

theorem askWork_fields (s : CState) :
    (askWork s).1.running = s.running ∧ (askWork s).1.delivered = s.delivered ∧ (askWork s).1.started = s.started
    ∧ (askWork s).1.failed = s.failed ∧ (askWork s).1.remaining = s.remaining
    ∧ (allTags (askWork s).1).Perm (allTags s) := by
  unfold askWork
  split
  · rename_i hq
    have hq' : s.queued = [] := List.isEmpty_iff.mp hq
    split
    · simp
    · rename_i js rest hs
      refine ⟨rfl, rfl, rfl, rfl, rfl, ?_⟩
      simp only [allTags, hq', hs, tags, List.map_nil, List.append_nil, List.flatten_cons, List.map_append]
      exact List.Perm.of_eq (by simp [List.append_assoc])
  · simp

theorem fill_inv (conc : Nat) : ∀ (fuel : Nat) (s : CState), Inv conc s →
    Inv conc (fill conc fuel s).1 ∧ (fill conc fuel s).1.delivered = s.delivered
      ∧ (fill conc fuel s).1.failed = s.failed := by
  intro fuel
  induction fuel with
  | zero => intro s h; exact ⟨h, rfl, rfl⟩
  | succ fuel ih =>
    intro s h
    simp only [fill]
    split
    · rename_i hcond
      simp only [Bool.and_eq_true, decide_eq_true_eq] at hcond
      obtain ⟨hr, hd, hst, hf, _, hperm⟩ := askWork_fields s
      split
      · rename_i hq
        refine ⟨⟨by rw [hr]; exact h.bound, by rw [hst, hd, hr]; exact h.ledger, (hperm.nodup_iff).mpr h.nodup⟩, hd, hf⟩
      · rename_i j q hq
        have hinv : Inv conc (startJob (askWork s).1 j q) := by
          refine ⟨?_, ?_, ?_⟩
          · simp [startJob, hr]; omega
          · simp only [startJob, hst, hd, hr, tags, List.map_append, List.map_cons, List.map_nil]
            rw [← List.append_assoc]
            exact List.Perm.append_right _ h.ledger
          · have hnd : (allTags (askWork s).1).Nodup := (hperm.nodup_iff).mpr h.nodup
            have : (allTags (startJob (askWork s).1 j q)).Perm (allTags (askWork s).1) := by
              simp only [allTags, startJob, hq, tags, List.map_append, List.map_cons, List.map_nil, List.append_assoc]
              refine List.Perm.append_left _ (List.Perm.append_left _ ?_)
              simp
            exact (this.nodup_iff).mpr hnd
        obtain ⟨h1, h2, h3⟩ := ih _ hinv
        exact ⟨h1, by rw [h2]; simp [startJob, hd], by rw [h3]; simp [startJob, hf]⟩
    · exact ⟨h, rfl, rfl⟩

theorem settle_inv (conc : Nat) (s : CState) (h : Inv conc s) :
    Inv conc (settle conc s).1 ∧ (settle conc s).1.delivered = s.delivered := by
  unfold settle
  obtain ⟨h1, h2, _⟩ := fill_inv conc (conc + 1) s h
  simp only
  split
  · exact ⟨⟨h1.bound, h1.ledger, h1.nodup⟩, h2⟩
  · exact ⟨h1, h2⟩

/-- states reachable by any order of (successful) completions -/
inductive Reach (conc : Nat) (budget : Option Int) (source : List (List Job)) : CState → Prop where
  | init : Reach conc budget source (initC conc budget source).1
  | step (s s' : CState) (tag : Nat) (evs : List Ev) :
      Reach conc budget source s → complete conc s tag = some (s', evs) → Reach conc budget source s'

theorem tags_filter_erase (l : List Job) (j : Job) (hj : j ∈ l) (hn : (tags l).Nodup) :
    (j.tag :: tags (l.filter (· != j))).Perm (tags l) := by
  induction l with
  | nil => simp at hj
  | cons x xs ih =>
    simp only [tags, List.map_cons, List.nodup_cons] at hn
    by_cases hx : x = j
    · subst hx
      have hnotin : ∀ y ∈ xs, y ≠ x := by
        intro y hy hyx
        exact hn.1 (by rw [← hyx]; exact List.mem_map_of_mem hy)
      have : xs.filter (· != x) = xs := by
        rw [List.filter_eq_self]
        intro y hy; simpa using hnotin y hy
      simp [tags, List.filter_cons, this]
    · have hj' : j ∈ xs := by
        rcases List.mem_cons.mp hj with h | h
        · exact absurd h.symm hx
        · exact h
      have ih' := ih hj' hn.2
      have hxj : (x != j) = true := by simpa using hx
      simp only [List.filter_cons, hxj, if_true, tags, List.map_cons]
      exact (List.Perm.swap _ _ _).trans (List.Perm.cons _ ih')

/-- **Collector invariants for every completion order**: never more than `concurrency` jobs in flight; every
started job is delivered or still running; no job is known twice (so no result is delivered twice). -/
theorem C20_collector_invariants (conc : Nat) (budget : Option Int) (source : List (List Job))
    (hsrc : (tags source.flatten).Nodup) (s : CState) (h : Reach conc budget source s) : Inv conc s := by
  induction h with
  | init =>
    exact (settle_inv conc { remaining := budget, source := source }
      ⟨by simp, by simp [tags], by simpa [allTags, tags] using hsrc⟩).1
  | step s s' tag evs hr hc ih =>
    unfold complete at hc
    split at hc
    · cases hc
    · split at hc
      · cases hc
      · rename_i j hj
        simp only [Option.some.injEq, Prod.mk.injEq] at hc
        obtain ⟨rfl, _⟩ := hc
        have hmem : j ∈ s.running := List.mem_of_find?_eq_some hj
        have htag : j.tag = tag := by
          have := List.find?_some hj; simpa using this
        have hnd := ih.nodup
        have hnd_run : (tags s.running).Nodup := by
          simp only [allTags] at hnd
          exact ((List.nodup_append.mp (List.nodup_append.mp (List.nodup_append.mp hnd).1).1).2.1)
        have hperm := tags_filter_erase s.running j hmem hnd_run
        refine (settle_inv conc _ ⟨?_, ?_, ?_⟩).1
        · exact Nat.le_trans (List.length_filter_le _ _) ih.bound
        · simp only
          refine ih.ledger.trans ?_
          rw [← htag]
          refine (List.Perm.append_left _ hperm.symm).trans ?_
          simp
        · simp only [allTags]
          have : (s.delivered ++ [tag] ++ tags (s.running.filter (· != j)) ++ tags s.queued ++ tags s.source.flatten).Perm
              (s.delivered ++ tags s.running ++ tags s.queued ++ tags s.source.flatten) := by
            refine List.Perm.append_right _ (List.Perm.append_right _ ?_)
            rw [List.append_assoc]
            refine List.Perm.append_left _ ?_
            rw [← htag]; exact hperm
          exact (this.nodup_iff).mpr hnd

/-- **Exactly once**: in every reachable state no result has been delivered twice, and when the collector has
halted (nothing running) the delivered jobs are exactly the started ones. -/
theorem C20_collector_exactly_once (conc : Nat) (budget : Option Int) (source : List (List Job))
    (hsrc : (tags source.flatten).Nodup) (s : CState) (h : Reach conc budget source s) :
    s.delivered.Nodup ∧ (s.running = [] → s.started.Perm s.delivered) := by
  have inv := C20_collector_invariants conc budget source hsrc s h
  refine ⟨?_, ?_⟩
  · have := inv.nodup
    simp only [allTags] at this
    exact (List.nodup_append.mp (List.nodup_append.mp (List.nodup_append.mp this).1).1).1
  · intro hr
    have := inv.ledger
    simpa [hr, tags] using this

/-- **Budget**: once the sample budget is used up no further job is started -/
theorem C20_collector_budget (conc fuel : Nat) (s : CState) (h : budgetLeft s = false) :
    fill conc fuel s = (s, []) := by
  cases fuel <;> simp [fill, h]

/-! ### stream client -/

theorem serve_inv (sv : Server) (r : Req)
    (h : (sv.jobsCreated = if sv.job then 1 else 0) ∧ (sv.job = true → sv.program = true)) :
    ((serve sv r).1.jobsCreated = if (serve sv r).1.job then 1 else 0)
      ∧ ((serve sv r).1.job = true → (serve sv r).1.program = true) := by
  obtain ⟨p, j, n⟩ := sv
  cases p <;> cases j <;> cases r <;> simp_all [serve]

theorem exchange_server (table : Code → Req → Option Req) (c : Client) (f : Fault) :
    (exchange table c f).server = c.server
      ∨ ∃ req, c.state = .running req ∧ (exchange table c f).server = (serve c.server req).1 := by
  unfold exchange
  split
  · rename_i req hst
    cases f
    · right
      refine ⟨req, hst, ?_⟩
      simp only
      split
      · rfl
      · split <;> rfl
    · left; rfl
    · right; exact ⟨req, hst, rfl⟩
    · left; rfl
  · left; rfl

/-- **The job is created at most once**, whatever the sequence of stream breaks (before or after the server
processed a request), server replies and retries — and whichever retry table the client uses. -/
theorem C20_job_created_at_most_once (table : Code → Req → Option Req) (faults : List Fault) (p : Bool) :
    (runClient table { program := p, job := false, jobsCreated := 0 } faults).server.jobsCreated ≤ 1 := by
  suffices h : ∀ (c : Client),
      ((c.server.jobsCreated = if c.server.job then 1 else 0) ∧ (c.server.job = true → c.server.program = true)) →
      (((faults.foldl (exchange table) c).server.jobsCreated = if (faults.foldl (exchange table) c).server.job then 1 else 0)
        ∧ ((faults.foldl (exchange table) c).server.job = true → (faults.foldl (exchange table) c).server.program = true)) by
    have := (h { server := { program := p, job := false, jobsCreated := 0 }, state := .running .createProgramAndJob } (by simp)).1
    unfold runClient
    split at this <;> omega
  induction faults with
  | nil => intro c h; exact h
  | cons f fs ih =>
    intro c h
    apply ih
    rcases exchange_server table c f with hs | ⟨req, _, hs⟩
    · rw [hs]; exact h
    · rw [hs]; exact serve_inv c.server req h

/-- **The retry table is total on what the server can answer**: no reply of the model server to any request
makes the client raise `StreamError` (so only non-retryable errors surface). -/
theorem C20_retry_table_total (sv : Server) (r : Req) (c : Code) (h : (serve sv r).2 = .error c) :
    retryTable c r ≠ none := by
  cases r <;> simp only [serve] at h <;> (repeat' split at h) <;> (try cases h) <;> simp_all [retryTable] <;> (subst_vars; simp [retryTable])

/-- **Convergence**: from any request in flight and any server state, three fault-free exchanges return the
result; together with `C20_job_created_at_most_once` the job runs once and its result is returned. -/
theorem C20_client_converges (p j : Bool) (n : Nat) (r : Req) (hj : j = true → p = true) :
    ([Fault.none, Fault.none, Fault.none].foldl (exchange retryTable)
      { server := { program := p, job := j, jobsCreated := n }, state := .running r }).state = .done := by
  cases p <;> cases j <;> cases r <;> simp_all [exchange, serve, retryTable]

end CirqVerif.C20
