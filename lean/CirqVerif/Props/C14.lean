import CirqVerif.Base.Pauli
/-!
# C14 — property theorems: Pauli-string products are faithful to the operators they denote
-/
namespace CirqVerif.Pauli

/-- single-qubit product table is the operator product, phase included: `(p·q)|b⟩ = p(q|b⟩)` -/
theorem mul_act (p q : P) (b : Bool) :
    let (k, r) := p.mul q
    let (k1, b1) := q.act b
    let (k2, b2) := p.act b1
    let (k3, b3) := r.act b
    b3 = b2 ∧ (k + k3) % 4 = (k1 + k2) % 4 := by
  cases p <;> cases q <;> cases b <;> decide

theorem actList_length (ps : List P) (bs : List Bool) : (actList ps bs).2.length = bs.length := by
  induction ps generalizing bs with
  | nil => simp [actList]
  | cons p ps ih => cases bs with
    | nil => simp [actList]
    | cons b bs => simp [actList, ih]

/-- **Product of Pauli strings = composition of the operators, coefficient and sign included**, for every
number of qubits: acting with `s·t` on any basis state equals acting with `t` and then with `s`. -/
theorem C14_pauli_mul_hom (s t : PStr) (bits : List Bool) (hs : s.ps.length = bits.length)
    (ht : t.ps.length = bits.length) :
    (s.mul t).act bits =
      (let (k1, b1) := t.act bits
       let (k2, b2) := s.act b1
       ((k1 + k2) % 4, b2)) := by
  obtain ⟨ks, ps⟩ := s
  obtain ⟨kt, qs⟩ := t
  simp only at hs ht
  -- the list part, by induction over the qubits
  have key : ∀ (ps qs : List P) (bits : List Bool), ps.length = bits.length → qs.length = bits.length →
      (actList (mulList ps qs).2 bits).2 = (actList ps (actList qs bits).2).2 ∧
      ((mulList ps qs).1 + (actList (mulList ps qs).2 bits).1) % 4
        = ((actList qs bits).1 + (actList ps (actList qs bits).2).1) % 4 := by
    intro ps
    induction ps with
    | nil =>
      intro qs bits h1 h2
      have : bits = [] := List.eq_nil_of_length_eq_zero (by simpa using h1.symm)
      subst this
      have : qs = [] := List.eq_nil_of_length_eq_zero (by simpa using h2)
      subst this
      simp [mulList, actList]
    | cons p ps ih =>
      intro qs bits h1 h2
      cases bits with
      | nil => simp at h1
      | cons b bs =>
        cases qs with
        | nil => simp at h2
        | cons q qs =>
          have ih' := ih qs bs (by simpa using h1) (by simpa using h2)
          have hm := mul_act p q b
          simp only [mulList, actList] at *
          constructor
          · simp only [List.cons.injEq]
            exact ⟨hm.1, ih'.1⟩
          · have h3 := hm.2
            have h4 := ih'.2
            omega
  have := key ps qs bits hs ht
  simp only [PStr.mul, PStr.act]
  refine Prod.ext ?_ ?_
  · simp only
    have h4 := this.2
    omega
  · simp only
    exact this.1

theorem mul_swap (p q : P) :
    (p.mul q).2 = (q.mul p).2 ∧ ((q.mul p).1 + (if p.commutes q then 0 else 2)) % 4 = (p.mul q).1 % 4 := by
  cases p <;> cases q <;> decide

theorem mulList_swap (ps qs : List P) (h : ps.length = qs.length) :
    (mulList ps qs).2 = (mulList qs ps).2 ∧
    ((mulList qs ps).1 + 2 * ((List.zip ps qs).filter (fun (p, q) => !p.commutes q)).length) % 4
      = (mulList ps qs).1 % 4 := by
  induction ps generalizing qs with
  | nil => cases qs <;> simp_all [mulList]
  | cons p ps ih => cases qs with
    | nil => simp at h
    | cons q qs =>
      have ih' := ih qs (by simpa using h)
      have hm := mul_swap p q
      simp only [mulList, List.zip_cons_cons, List.filter_cons]
      constructor
      · simp only [List.cons.injEq]; exact ⟨hm.1, ih'.1⟩
      · have h1 := hm.2; have h2 := ih'.2
        by_cases hc : p.commutes q = true
        · simp only [hc, Bool.not_true, Bool.false_eq_true, if_false, if_true] at *
          omega
        · have hc' : p.commutes q = false := by simpa using hc
          simp only [hc', Bool.not_false, if_true, Bool.false_eq_true, if_false, List.length_cons] at *
          omega

/-- **The parity test decides commutation**: two Pauli strings commute (`s·t = t·s`, coefficients
included) iff they anticommute on an even number of qubits. -/
theorem C14_commutes_iff (s t : PStr) (h : s.ps.length = t.ps.length) :
    s.mul t = t.mul s ↔ commutesList s.ps t.ps = true := by
  obtain ⟨ks, ps⟩ := s
  obtain ⟨kt, qs⟩ := t
  simp only at h
  have hsw := mulList_swap ps qs h
  simp only [PStr.mul, commutesList, PStr.mk.injEq]
  generalize ((List.zip ps qs).filter (fun (p, q) => !p.commutes q)).length = n at *
  constructor
  · rintro ⟨h1, _⟩
    simp only [beq_iff_eq]
    have := hsw.2
    omega
  · intro hn
    simp only [beq_iff_eq] at hn
    refine ⟨?_, hsw.1⟩
    have := hsw.2
    omega

/-- `_vectorized_pauli_mul_phase`: the per-qubit exponents (each -1, 0 or 1) are summed in 8-bit
arithmetic and masked with 3; this is the exponent modulo 4 for **every** string length. -/
theorem C14_dense_mul_phase (total : Int) : (total % 256) % 4 = total % 4 := by omega

end CirqVerif.Pauli
