import CirqVerif.Props.C04Rules
/-!
# C09 — the documented Kraus operators are trace preserving, for every parameter

The trajectory simulator picks Kraus operator `k` with probability `‖K_k ψ‖²` (C09_select_iff); those probabilities sum to one for
every state exactly when `Σ_k K_k† K_k = 1`.  Here that identity is proved for the documented one-qubit channels (Spec/GateDocs, tied
to `cirq.kraus` by the C03 channel stream) over any commutative ring with a conjugation that fixes the square roots — for every
parameter whose weights add up to one (`√(1−p)² + √p² = 1`: every `0 ≤ p ≤ 1` in the complex model, NonVacuity/ComplexModel.lean).
-/
set_option linter.unusedSimpArgs false
namespace CirqVerif.GateDocs
variable {A R : Type} [Lean.Grind.CommRing A] [Lean.Grind.CommRing R]

/-- conjugate transpose of a 2×2 list matrix, for a given conjugation of scalars -/
def dagger2 (conj : R → R) (m : M R) : M R :=
  [[conj ((m.getD 0 []).getD 0 0), conj ((m.getD 1 []).getD 0 0)], [conj ((m.getD 0 []).getD 1 0), conj ((m.getD 1 []).getD 1 0)]]

/-- `Σ_k K_k† K_k` -/
def krausSum (conj : R → R) (ks : List (M R)) : M R :=
  ks.foldl (fun acc k => madd acc (mul (dagger2 conj k) k)) [[0, 0], [0, 0]]

/-- what conjugation does to the scalars the channel documentation uses: it is a ring map fixing square roots and 0, 1, sending `i` to `−i` -/
structure LawfulConj (E : Env A R) (conj : R → R) : Prop where
  conj_zero : conj 0 = 0
  conj_one : conj 1 = 1
  conj_neg : ∀ x, conj (-x) = -conj x
  conj_mul : ∀ x y, conj (x * y) = conj x * conj y
  conj_I : conj E.I = -E.I
  conj_sqrt : ∀ a, conj (E.sqrt a) = E.sqrt a

macro "eval_ks" : tactic => `(tactic|
  simp only [krausSum, dagger2, madd, mul, smul, eye, List.foldl_cons, List.foldl_nil, List.map_cons, List.map_nil, List.headD_cons, List.length_cons,
    List.length_nil, List.range, List.range.loop, List.getD_cons_zero, List.getD_cons_succ, List.zipWith_cons_cons, List.zipWith_nil_left, Nat.reduceAdd])

/-- `bit_flip(p)` is trace preserving (`Σ K†K = 1`) for every `p` whose two weights `√(1−p)²`, `√p²` add up to 1 (every `0 ≤ p ≤ 1`) -/
theorem C09_bit_flip_tp (E : Env A R) (conj : R → R) (hc : LawfulConj E conj) (p : A)
    (hs : E.sqrt (E.oneA - p) * E.sqrt (E.oneA - p) + E.sqrt (p) * E.sqrt (p) = 1) :
    krausSum conj (bitFlip E p) = [[1, 0], [0, 1]] := by
  have h0 := hc.conj_zero; have h1 := hc.conj_one
  simp only [bitFlip, pauliX]
  eval_ks
  simp only [hc.conj_mul, hc.conj_sqrt, hc.conj_neg, h0, h1, hc.conj_I]
  mat_eq

/-- `phase_flip(p)` -/
theorem C09_phase_flip_tp (E : Env A R) (conj : R → R) (hc : LawfulConj E conj) (p : A)
    (hs : E.sqrt (E.oneA - p) * E.sqrt (E.oneA - p) + E.sqrt (p) * E.sqrt (p) = 1) :
    krausSum conj (phaseFlip E p) = [[1, 0], [0, 1]] := by
  have h0 := hc.conj_zero; have h1 := hc.conj_one
  simp only [phaseFlip, pauliZ]
  eval_ks
  simp only [hc.conj_mul, hc.conj_sqrt, hc.conj_neg, h0, h1, hc.conj_I]
  mat_eq

/-- `amplitude_damp(γ)` -/
theorem C09_amplitude_damp_tp (E : Env A R) (conj : R → R) (hc : LawfulConj E conj) (γ : A)
    (hs : E.sqrt (E.oneA - γ) * E.sqrt (E.oneA - γ) + E.sqrt (γ) * E.sqrt (γ) = 1) :
    krausSum conj (amplitudeDamp E γ) = [[1, 0], [0, 1]] := by
  have h0 := hc.conj_zero; have h1 := hc.conj_one
  simp only [amplitudeDamp]
  eval_ks
  simp only [hc.conj_mul, hc.conj_sqrt, hc.conj_neg, h0, h1, hc.conj_I]
  mat_eq

/-- `phase_damp(γ)` -/
theorem C09_phase_damp_tp (E : Env A R) (conj : R → R) (hc : LawfulConj E conj) (γ : A)
    (hs : E.sqrt (E.oneA - γ) * E.sqrt (E.oneA - γ) + E.sqrt (γ) * E.sqrt (γ) = 1) :
    krausSum conj (phaseDamp E γ) = [[1, 0], [0, 1]] := by
  have h0 := hc.conj_zero; have h1 := hc.conj_one
  simp only [phaseDamp]
  eval_ks
  simp only [hc.conj_mul, hc.conj_sqrt, hc.conj_neg, h0, h1, hc.conj_I]
  mat_eq

/-- `asymmetric_depolarize(px, py, pz)` -/
theorem C09_asymmetric_depolarize_tp (E : Env A R) (conj : R → R) (hc : LawfulConj E conj) (hI : E.I * E.I = -1) (px py pz : A)
    (hs : E.sqrt (E.oneA - px - py - pz) * E.sqrt (E.oneA - px - py - pz) + E.sqrt (px) * E.sqrt (px) + E.sqrt (py) * E.sqrt (py) + E.sqrt (pz) * E.sqrt (pz) = 1) :
    krausSum conj (asymDepolarize E px py pz) = [[1, 0], [0, 1]] := by
  have h0 := hc.conj_zero; have h1 := hc.conj_one
  simp only [asymDepolarize, pauliX, pauliY, pauliZ]
  eval_ks
  simp only [hc.conj_mul, hc.conj_sqrt, hc.conj_neg, h0, h1, hc.conj_I]
  mat_eq

/-- `generalized_amplitude_damp(p, γ)` -/
theorem C09_generalized_amplitude_damp_tp (E : Env A R) (conj : R → R) (hc : LawfulConj E conj) (p γ : A)
    (hp : E.sqrt (E.oneA - p) * E.sqrt (E.oneA - p) + E.sqrt (p) * E.sqrt (p) = 1) (hg : E.sqrt (E.oneA - γ) * E.sqrt (E.oneA - γ) + E.sqrt (γ) * E.sqrt (γ) = 1) :
    krausSum conj (genAmplitudeDamp E p γ) = [[1, 0], [0, 1]] := by
  have h0 := hc.conj_zero; have h1 := hc.conj_one
  simp only [genAmplitudeDamp]
  eval_ks
  simp only [hc.conj_mul, hc.conj_sqrt, hc.conj_neg, h0, h1, hc.conj_I]
  mat_eq

omit [Lean.Grind.CommRing A] in
/-- `ResetChannel` on a qubit -/
theorem C09_reset_tp (E : Env A R) (conj : R → R) (hc : LawfulConj E conj) :
    krausSum conj (reset : List (M R)) = [[1, 0], [0, 1]] := by
  have h0 := hc.conj_zero; have h1 := hc.conj_one
  simp only [reset]
  eval_ks
  simp only [h0, h1]
  mat_eq

end CirqVerif.GateDocs
