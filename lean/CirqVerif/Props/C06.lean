import CirqVerif.Model.C06
import CirqVerif.Props.C01
/-!
# C06 — reordering that respects every wire preserves what a circuit computes

`C06_same_wire_order_is_swaps`: if two operation lists contain the same (distinct) operations and list them in the
same order on every wire, one is obtained from the other by exchanging adjacent independent operations
(the projection lemma of trace theory, by induction on the first list).  `C06_swaps_preserve_semantics`: such
exchanges preserve any semantics in which independent operations commute; `C06_reordering_preserves_state`
instantiates it with the tensor action of C01 (`C01_apply_comm`).  `C06_check_sound`: the executable check applied
to the output of the real transformers implies the hypothesis.
-/
namespace CirqVerif.C06

theorem indep_symm (a b : TOp) (h : indep a b = true) : indep b a = true := by
  unfold indep at *
  simp only [List.all_eq_true, Bool.not_eq_eq_eq_not, Bool.not_true, List.contains_eq_mem, decide_eq_false_iff_not] at *
  intro w hw hwa
  exact h w hwa hw

theorem Swaps.trans {a b c : List TOp} (h1 : Swaps a b) (h2 : Swaps b c) : Swaps a c := by
  induction h1 with
  | refl l => exact h2
  | step pre post x y l' h _ ih => exact Swaps.step pre post x y c h (ih h2)

theorem Swaps.cons (x : TOp) {l l' : List TOp} (h : Swaps l l') : Swaps (x :: l) (x :: l') := by
  induction h with
  | refl l => exact Swaps.refl _
  | step pre post a b l' hi _ ih => exact Swaps.step (x :: pre) post a b (x :: l') hi ih

/-- an operation independent of everything in `pre` can be moved past `pre` -/
theorem bubble (a : TOp) (pre post : List TOp) (h : ∀ b ∈ pre, indep a b = true) :
    Swaps (a :: (pre ++ post)) (pre ++ a :: post) := by
  induction pre with
  | nil => exact Swaps.refl _
  | cons b pre' ih =>
    have hb : indep a b = true := h b (by simp)
    have ih' := ih (fun c hc => h c (by simp [hc]))
    exact Swaps.step [] (pre' ++ post) a b _ hb (Swaps.cons b ih')

theorem proj_cons (w : Nat) (a : TOp) (l : List TOp) :
    proj w (a :: l) = if a.wires.contains w then a :: proj w l else proj w l := by
  unfold proj
  simp only [List.filter_cons]

theorem proj_append (w : Nat) (l1 l2 : List TOp) : proj w (l1 ++ l2) = proj w l1 ++ proj w l2 := by
  unfold proj; simp

theorem mem_of_mem_proj {w : Nat} {l : List TOp} {x : TOp} (h : x ∈ proj w l) : x ∈ l := by
  unfold proj at h; exact (List.mem_filter.mp h).1

theorem proj_eq_nil_of_indep (w : Nat) (a : TOp) (pre : List TOp) (hw : a.wires.contains w = true)
    (h : ∀ b ∈ pre, indep a b = true) : proj w pre = [] := by
  unfold proj
  rw [List.filter_eq_nil_iff]
  intro b hb hbw
  have := h b hb
  unfold indep at this
  simp only [List.all_eq_true] at this
  have hnot := this w (by simpa using hw)
  rw [hbw] at hnot
  cases hnot

/-- **the projection lemma**: same operations, same order on every wire ⇒ related by independent exchanges -/
theorem C06_same_wire_order_is_swaps : ∀ (l1 l2 : List TOp), l1.Nodup → l2.Nodup → (∀ x, x ∈ l1 ↔ x ∈ l2) →
    (∀ w, proj w l1 = proj w l2) → Swaps l1 l2 := by
  intro l1
  induction l1 with
  | nil =>
    intro l2 _ _ hm _
    have : l2 = [] := by
      cases l2 with
      | nil => rfl
      | cons y ys => exact absurd ((hm y).mpr (by simp)) (by simp)
    subst this; exact Swaps.refl _
  | cons a t ih =>
    intro l2 hn1 hn2 hm hp
    have ha2 : a ∈ l2 := (hm a).mp (by simp)
    obtain ⟨pre, post, rfl⟩ := List.append_of_mem ha2
    have hn1' := List.nodup_cons.mp hn1
    have hnpre : a ∉ pre := by
      intro h
      have := (List.nodup_append.mp hn2).2.2 a h a (by simp)
      exact this rfl
    have hnpost : a ∉ post := by
      have := (List.nodup_append.mp hn2).2.1
      exact (List.nodup_cons.mp this).1
    -- everything before `a` in `l2` is independent of `a`
    have hind : ∀ b ∈ pre, indep a b = true := by
      intro b hb
      cases hi : indep a b with
      | true => rfl
      | false =>
        exfalso
        unfold indep at hi
        simp only [List.all_eq_false, Bool.not_eq_true, Bool.not_eq_false', List.contains_eq_mem, decide_eq_true_eq] at hi
        obtain ⟨w, hwa, hwb⟩ := hi
        have hwa' : a.wires.contains w = true := by simpa using hwa
        have h1 := hp w
        rw [proj_cons, hwa', if_pos rfl, proj_append] at h1
        have hbp : b ∈ proj w pre := by
          unfold proj; exact List.mem_filter.mpr ⟨hb, by simpa using hwb⟩
        cases hpp : proj w pre with
        | nil => rw [hpp] at hbp; cases hbp
        | cons c cs =>
          rw [hpp] at h1
          simp only [List.cons_append, List.cons.injEq] at h1
          have hc : c ∈ pre := mem_of_mem_proj (w := w) (by rw [hpp]; simp)
          exact hnpre (h1.1 ▸ hc)
    -- the rest: `t` against `pre ++ post`
    have hn2' : (pre ++ post).Nodup := by
      have h := List.nodup_append.mp hn2
      exact List.nodup_append.mpr ⟨h.1, (List.nodup_cons.mp h.2.1).2, fun x hx y hy => h.2.2 x hx y (by simp [hy])⟩
    have hm' : ∀ x, x ∈ t ↔ x ∈ pre ++ post := by
      intro x
      constructor
      · intro hx
        have hxa : x ≠ a := fun h => hn1'.1 (h ▸ hx)
        have := (hm x).mp (by simp [hx])
        simp only [List.mem_append, List.mem_cons] at this ⊢
        rcases this with h | h | h
        · exact Or.inl h
        · exact absurd h hxa
        · exact Or.inr h
      · intro hx
        have hxa : x ≠ a := by
          intro h; subst h
          simp only [List.mem_append] at hx
          rcases hx with h | h
          · exact hnpre h
          · exact hnpost h
        have := (hm x).mpr (by
          simp only [List.mem_append, List.mem_cons] at hx ⊢
          rcases hx with h | h
          · exact Or.inl h
          · exact Or.inr (Or.inr h))
        simp only [List.mem_cons] at this
        rcases this with h | h
        · exact absurd h hxa
        · exact h
    have hp' : ∀ w, proj w t = proj w (pre ++ post) := by
      intro w
      have h1 := hp w
      rw [proj_cons, proj_append, proj_cons] at h1
      rw [proj_append]
      cases hw : a.wires.contains w with
      | true =>
        rw [hw] at h1
        simp only [if_true] at h1
        rw [proj_eq_nil_of_indep w a pre hw hind] at h1 ⊢
        simpa using h1
      | false =>
        rw [hw] at h1
        simpa using h1
    have hrest := ih (pre ++ post) hn1'.2 hn2' hm' hp'
    exact (Swaps.cons a hrest).trans (bubble a pre post hind)

/-- exchanges of independent operations preserve any semantics in which independent operations commute -/
theorem C06_swaps_preserve_semantics {σ : Type} (sem : TOp → σ → σ)
    (hcomm : ∀ a b, indep a b = true → ∀ s, sem b (sem a s) = sem a (sem b s))
    {l1 l2 : List TOp} (h : Swaps l1 l2) (s : σ) :
    l1.foldl (fun s o => sem o s) s = l2.foldl (fun s o => sem o s) s := by
  induction h generalizing s with
  | refl l => rfl
  | step pre post a b l' hi _ ih =>
    rw [← ih s]
    simp only [List.foldl_append, List.foldl_cons]
    rw [hcomm a b hi]

/-- wires not mentioned by any operation have empty projections -/
theorem proj_eq_nil_of_not_mem (w : Nat) (l : List TOp) (h : w ∉ l.flatMap (·.wires)) : proj w l = [] := by
  unfold proj
  rw [List.filter_eq_nil_iff]
  intro b hb hbw
  exact h (List.mem_flatMap.mpr ⟨b, hb, by simpa using hbw⟩)

/-- **the executable check is sound**: it implies the hypotheses of the projection lemma -/
theorem C06_check_sound (l1 l2 : List TOp) (h : sameDependencyOrder l1 l2 = true) : Swaps l1 l2 := by
  unfold sameDependencyOrder at h
  simp only [Bool.and_eq_true, decide_eq_true_eq, List.all_eq_true, List.contains_eq_mem, beq_iff_eq] at h
  obtain ⟨⟨⟨⟨hn1, hn2⟩, h12⟩, h21⟩, hw⟩ := h
  refine C06_same_wire_order_is_swaps l1 l2 hn1 hn2 (fun x => ⟨fun hx => h12 x hx, fun hx => h21 x hx⟩) ?_
  intro w
  by_cases hmem : w ∈ (l1 ++ l2).flatMap (·.wires)
  · exact hw w hmem
  · have h1 : w ∉ l1.flatMap (·.wires) := fun hh => hmem (by simp only [List.flatMap_append, List.mem_append]; exact Or.inl hh)
    have h2 : w ∉ l2.flatMap (·.wires) := fun hh => hmem (by simp only [List.flatMap_append, List.mem_append]; exact Or.inr hh)
    rw [proj_eq_nil_of_not_mem w l1 h1, proj_eq_nil_of_not_mem w l2 h2]

/-! ### instantiation with the tensor action of C01 -/

open CirqVerif in
/-- **a reordering that respects every wire yields the same state**: operations are local operators acting on the axes
listed as their wires; independent ones commute (`C01_apply_comm`) -/
theorem C06_reordering_preserves_state {R : Type} [Lean.Grind.CommRing R]
    (mat : TOp → Mat R) (dims : TOp → List Nat) {l1 l2 : List TOp} (h : sameDependencyOrder l1 l2 = true) (ψ : State R) :
    l1.foldl (fun s o => applyOp (mat o) (dims o) o.wires s) ψ = l2.foldl (fun s o => applyOp (mat o) (dims o) o.wires s) ψ := by
  apply C06_swaps_preserve_semantics (fun o s => applyOp (mat o) (dims o) o.wires s) ?_ (C06_check_sound l1 l2 h) ψ
  intro a b hi s
  funext idx
  have hd : ∀ x ∈ b.wires, x ∉ a.wires := by
    have := indep_symm a b hi
    unfold indep at this
    simp only [List.all_eq_true, Bool.not_eq_eq_eq_not, Bool.not_true, List.contains_eq_mem, decide_eq_false_iff_not] at this
    exact this
  exact C01_apply_comm (mat b) (mat a) (dims b) b.wires (dims a) a.wires s idx hd

example : sameDependencyOrder [⟨1, [0]⟩, ⟨2, [1]⟩, ⟨3, [0, 1]⟩] [⟨2, [1]⟩, ⟨1, [0]⟩, ⟨3, [0, 1]⟩] = true := by decide
example : sameDependencyOrder [⟨1, [0]⟩, ⟨3, [0, 1]⟩, ⟨2, [1]⟩] [⟨2, [1]⟩, ⟨1, [0]⟩, ⟨3, [0, 1]⟩] = false := by decide

end CirqVerif.C06
