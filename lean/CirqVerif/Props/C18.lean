import CirqVerif.Proofs.Bits
/-!
# C18 — property theorems (digit / bit conversions part)

`cirq.big_endian_digits_to_int`, `cirq.big_endian_int_to_digits`, `cirq.big_endian_bits_to_int`,
`cirq.big_endian_int_to_bits`: mutual inverses on their documented domains, for **every** mixed
radix and **every** width (no 64-bit bound), rejecting exactly the out-of-range inputs.
-/
namespace CirqVerif.Digits

/-- digits → int → digits, any mixed radix: in-range digits are accepted, the value is below the
product of the bases and converting back yields the same digits. -/
theorem C18_digits_int_digits (ds bs : List Nat) (h : InRange ds bs) :
    ∃ v : Nat, digitsToInt (ds.map Int.ofNat) (bs.map Int.ofNat) = .ok (v : Int)
      ∧ v < prod bs ∧ intToDigits bs v = .ok ds := by
  have hl := h.length_eq
  have hr := h.zip_lt
  refine ⟨horner ds bs 0, ?_, ?_, ?_⟩
  · unfold digitsToInt
    simp only [List.length_map, hl, ne_eq, not_true_eq_false, if_false]
    exact digitsToIntLoop_ok ds bs 0 hl hr
  · rw [horner_eq_leValue _ _ hl, ← prod_reverse]; exact leValue_lt h.reverse
  · have hpos : ∀ b ∈ bs.reverse, 0 < b := fun b hb => h.bases_pos b (by simpa using hb)
    obtain ⟨ds', r, h1, h2, h3⟩ := intToDigitsLoop_spec bs.reverse (horner ds bs 0) hpos
    have hv : horner ds bs 0 = leValue ds.reverse bs.reverse := horner_eq_leValue _ _ hl
    have hlt : leValue ds.reverse bs.reverse < prod bs.reverse := leValue_lt h.reverse
    have hlt' : leValue ds' bs.reverse < prod bs.reverse := leValue_lt h2
    have hr0 : r = 0 := by
      rcases Nat.eq_zero_or_pos r with h0 | h0
      · exact h0
      · exfalso
        have : prod bs.reverse * 1 ≤ prod bs.reverse * r := Nat.mul_le_mul_left _ h0
        omega
    subst hr0
    have heq : ds' = ds.reverse := leValue_inj h2 h.reverse (by omega)
    unfold intToDigits
    rw [h1]; simp [heq]

/-- int → digits → int: whenever `big_endian_int_to_digits` succeeds, the digits are in range and
`big_endian_digits_to_int` maps them back to the same integer. -/
theorem C18_int_digits_int (bs : List Nat) (v : Nat) (ds : List Nat)
    (h : intToDigits bs v = .ok ds) :
    InRange ds bs ∧ digitsToInt (ds.map Int.ofNat) (bs.map Int.ofNat) = .ok (v : Int) := by
  unfold intToDigits at h
  by_cases hz : 0 ∈ bs.reverse
  · obtain ⟨e, he⟩ := intToDigitsLoop_zero bs.reverse v hz
    rw [he] at h; cases h
  · have hpos : ∀ b ∈ bs.reverse, 0 < b := fun b hb =>
      Nat.pos_of_ne_zero (fun h0 => hz (h0 ▸ hb))
    obtain ⟨ds', r, h1, h2, h3⟩ := intToDigitsLoop_spec bs.reverse v hpos
    rw [h1] at h
    by_cases hr : r = 0
    · subst hr
      simp only [ne_eq, not_true_eq_false, if_false, Except.ok.injEq] at h
      subst h
      have hin : InRange ds'.reverse bs := by simpa using h2.reverse
      obtain ⟨w, hw1, _, hw3⟩ := C18_digits_int_digits _ _ hin
      refine ⟨hin, ?_⟩
      have : horner ds'.reverse bs 0 = v := by
        rw [horner_eq_leValue _ _ hin.length_eq]; simpa using h3
      unfold digitsToInt
      simp only [List.length_map, hin.length_eq, ne_eq, not_true_eq_false, if_false]
      rw [← this]
      exact digitsToIntLoop_ok _ _ 0 hin.length_eq hin.zip_lt
    · simp [hr] at h

/-- `big_endian_int_to_digits` accepts exactly the values below the product of the (positive) bases. -/
theorem C18_int_to_digits_accepts_iff (bs : List Nat) (v : Nat) (hb : ∀ b ∈ bs, 0 < b) :
    (∃ ds, intToDigits bs v = .ok ds) ↔ v < prod bs := by
  constructor
  · rintro ⟨ds, h⟩
    obtain ⟨hin, h2⟩ := C18_int_digits_int bs v ds h
    obtain ⟨w, hw1, hw2, _⟩ := C18_digits_int_digits ds bs hin
    rw [h2] at hw1
    have : (v : Int) = (w : Int) := by injection hw1
    omega
  · intro hlt
    have hpos : ∀ b ∈ bs.reverse, 0 < b := fun b hb' => hb b (by simpa using hb')
    obtain ⟨ds', r, h1, h2, h3⟩ := intToDigitsLoop_spec bs.reverse v hpos
    have hr0 : r = 0 := by
      rcases Nat.eq_zero_or_pos r with h0 | h0
      · exact h0
      · exfalso
        have : prod bs.reverse * 1 ≤ prod bs.reverse * r := Nat.mul_le_mul_left _ h0
        rw [prod_reverse] at this h3; omega
    exact ⟨ds'.reverse, by unfold intToDigits; rw [h1]; simp [hr0]⟩

/-- `big_endian_digits_to_int` rejects every digit list with an out-of-range digit or wrong length:
acceptance implies all digits are natural numbers below their (positive) base. -/
theorem C18_digits_to_int_accepts_only_in_range (ds bs : List Int) (v : Int)
    (h : digitsToInt ds bs = .ok v) :
    ds.length = bs.length ∧ ∀ p ∈ ds.zip bs, 0 ≤ p.1 ∧ p.1 < p.2 := by
  unfold digitsToInt at h
  by_cases hl : ds.length = bs.length
  · refine ⟨hl, ?_⟩
    simp only [hl, ne_eq, not_true_eq_false, if_false] at h
    exact digitsToIntLoop_ok_range ds bs 0 v hl h
  · simp [hl] at h

/-- The `digit_count and base == 2` string fast path of `big_endian_int_to_digits` returns exactly
what the general long-division path returns (so taking it, or falling through, is unobservable). -/
theorem C18_binary_fast_path_sound (v n : Nat) (ds : List Nat) (h : binFastPath v n = some ds) :
    intToDigits (List.replicate n 2) v = .ok ds := by
  unfold binFastPath at h
  by_cases hn : n = 0
  · simp [hn] at h
  · simp only [hn, if_false] at h
    by_cases hle : (binChars v).length ≤ n
    · simp only [hle, if_true, Option.some.injEq] at h
      have hlen : ds.length = n := by rw [← h]; simp; omega
      have hlt : ∀ d ∈ ds, d < 2 := by
        rw [← h]; intro d hd
        rcases List.mem_append.mp hd with hd | hd
        · have := (List.mem_replicate.mp hd).2; omega
        · exact binChars_lt2 v d hd
      have hin := inRange_replicate2 ds hlt
      rw [hlen] at hin
      obtain ⟨w, _, _, hw⟩ := C18_digits_int_digits ds _ hin
      have hwv : horner ds (List.replicate n 2) 0 = v := by
        rw [← hlen, horner_replicate2, ← h, val2_append, val2_zeros, binChars_val]
      -- `w` is the Horner value (re-derive to avoid depending on the witness chosen above)
      have : intToDigits (List.replicate n 2) (horner ds (List.replicate n 2) 0) = .ok ds := by
        obtain ⟨ds2, hds2⟩ := (C18_int_to_digits_accepts_iff (List.replicate n 2)
          (horner ds (List.replicate n 2) 0) (fun b hb => by
            have := (List.mem_replicate.mp hb).2; omega)).mpr (by
            rw [horner_eq_leValue _ _ hin.length_eq, ← prod_reverse]; exact leValue_lt hin.reverse)
        obtain ⟨hin2, h2⟩ := C18_int_digits_int _ _ _ hds2
        have h1 : digitsToInt (ds.map Int.ofNat) ((List.replicate n 2).map Int.ofNat)
            = .ok ((horner ds (List.replicate n 2) 0 : Nat) : Int) := by
          unfold digitsToInt
          simp only [List.length_map, hin.length_eq, ne_eq, not_true_eq_false, if_false]
          exact digitsToIntLoop_ok _ _ 0 hin.length_eq hin.zip_lt
        have e : leValue ds2.reverse (List.replicate n 2).reverse
            = leValue ds.reverse (List.replicate n 2).reverse := by
          rw [← horner_eq_leValue _ _ hin2.length_eq, ← horner_eq_leValue _ _ hin.length_eq]
          have h2' : digitsToInt (ds2.map Int.ofNat) ((List.replicate n 2).map Int.ofNat)
              = .ok ((horner ds2 (List.replicate n 2) 0 : Nat) : Int) := by
            unfold digitsToInt
            simp only [List.length_map, hin2.length_eq, ne_eq, not_true_eq_false, if_false]
            exact digitsToIntLoop_ok _ _ 0 hin2.length_eq hin2.zip_lt
          rw [h2'] at h2
          have : ((horner ds2 (List.replicate n 2) 0 : Nat) : Int)
              = ((horner ds (List.replicate n 2) 0 : Nat) : Int) := by injection h2
          exact Int.ofNat_inj.mp this
        have := leValue_inj hin2.reverse hin.reverse e
        rw [List.reverse_inj] at this
        rw [hds2, this]
      rw [hwv] at this; exact this
    · simp [hle] at h

/-- bits → int → bits (any length): `big_endian_int_to_bits(big_endian_bits_to_int(b), bit_count=len(b)) = b`. -/
theorem C18_bits_int_bits (bits : List Bool) : intToBits (bitsToInt bits) bits.length = bits := by
  induction bits with
  | nil => rfl
  | cons b bs ih =>
    rw [List.length_cons, intToBits_succ, bitsToInt_cons]
    have hlt := bitsToInt_lt bs
    congr 1
    · cases b
      · simp only [Bool.false_eq_true, if_false, Nat.zero_mul, Nat.zero_add]
        exact Nat.testBit_lt_two_pow hlt
      · simp only [if_true, Nat.one_mul]
        rw [Nat.testBit_two_pow_add_eq]
        simp [Nat.testBit_lt_two_pow hlt]
    · refine Eq.trans (intToBits_congr _ (bitsToInt bs) _ ?_) ih
      intro i hi
      cases b
      · simp
      · simp only [if_true, Nat.one_mul]
        exact Nat.testBit_two_pow_add_gt (by omega) _

/-- int → bits → int: the `bit_count` lowest bits are kept, higher bits dropped (as documented). -/
theorem C18_int_bits_int (v n : Nat) : bitsToInt (intToBits v n) = v % 2 ^ n := by
  induction n with
  | zero => simp [intToBits, bitsToInt, Nat.mod_one]
  | succ n ih =>
    rw [intToBits_succ, bitsToInt_cons, ih]
    have hlen : (intToBits v n).length = n := by simp [intToBits]
    rw [hlen, Nat.mod_pow_succ]
    rw [Nat.testBit_eq_decide_div_mod_eq]
    by_cases h : v / 2 ^ n % 2 = 1
    · simp [h]; omega
    · have : v / 2 ^ n % 2 = 0 := by omega
      simp [this]

end CirqVerif.Digits
