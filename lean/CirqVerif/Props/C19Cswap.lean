import CirqVerif.Props.C19
/-! the two heavy kernel evaluations of `Props.C19` (built in parallel with the rest) -/
namespace CirqVerif.Qasm
open CirqVerif

/-- `cswap` (Fredkin) through `ccx` -/
theorem C19_qelib_cswap : exactColumns 3 [("cswap", [], [0, 1, 2])] =
    some [#[1, 0, 0, 0, 0, 0, 0, 0], #[0, 1, 0, 0, 0, 0, 0, 0], #[0, 0, 1, 0, 0, 0, 0, 0], #[0, 0, 0, 1, 0, 0, 0, 0],
          #[0, 0, 0, 0, 1, 0, 0, 0], #[0, 0, 0, 0, 0, 0, 1, 0], #[0, 0, 0, 0, 0, 1, 0, 0], #[0, 0, 0, 0, 0, 0, 0, 1]] := by
  decide +kernel

end CirqVerif.Qasm
