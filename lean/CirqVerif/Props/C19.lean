import CirqVerif.Spec.Qasm
/-!
# C19 — the transcription of `qelib1.inc` denotes the textbook matrices (exact, in ℚ(ζ₈))

The QASM text Cirq emits is interpreted (by the compiled driver, in floats) with `Spec.Qasm.expandGate`, the
expansion of every library gate into the built-ins `U` and `CX`.  Here the *same* definitions are evaluated
exactly, with angles in units of π/4 and amplitudes in ℚ(ζ₈), and the kernel checks that each parameter-free
gate of the library expands to its textbook matrix (columns are listed, big-endian qubit order).  These theorems
are about the specification side: a slip in transcribing `qelib1.inc` cannot go unnoticed.
-/
namespace CirqVerif.Qasm
open CirqVerif

/-- columns of the matrix of a gate list on `nq` qubits, exactly -/
def exactColumns (nq : Nat) (gates : List (String × List Oct × List Nat)) : Option (List (Array Q8)) :=
  gateListColumns octTrig nq gates

private def i : Q8 := Q8.I
private def r : Q8 := Q8.isq2     -- 1/√2
private def z : Q8 := Q8.zeta     -- e^{iπ/4}

theorem C19_qelib_x : exactColumns 1 [("x", [], [0])] = some [#[0, 1], #[1, 0]] := by decide +kernel
theorem C19_qelib_y : exactColumns 1 [("y", [], [0])] = some [#[0, i], #[-i, 0]] := by decide +kernel
theorem C19_qelib_z : exactColumns 1 [("z", [], [0])] = some [#[1, 0], #[0, -1]] := by decide +kernel
theorem C19_qelib_h : exactColumns 1 [("h", [], [0])] = some [#[r, r], #[r, -r]] := by decide +kernel
theorem C19_qelib_s : exactColumns 1 [("s", [], [0])] = some [#[1, 0], #[0, i]] := by decide +kernel
theorem C19_qelib_sdg : exactColumns 1 [("sdg", [], [0])] = some [#[1, 0], #[0, -i]] := by decide +kernel
theorem C19_qelib_t : exactColumns 1 [("t", [], [0])] = some [#[1, 0], #[0, z]] := by decide +kernel
theorem C19_qelib_tdg : exactColumns 1 [("tdg", [], [0])] = some [#[1, 0], #[0, Q8.conj z]] := by decide +kernel
theorem C19_qelib_id : exactColumns 1 [("id", [], [0])] = some [#[1, 0], #[0, 1]] := by decide +kernel

/-- `sx = sdg·h·sdg` is `e^{-iπ/4}·√X`: `(1/√2)[[1, −i], [−i, 1]]` -/
theorem C19_qelib_sx : exactColumns 1 [("sx", [], [0])] = some [#[r, -(i * r)], #[-(i * r), r]] := by decide +kernel
theorem C19_qelib_sxdg : exactColumns 1 [("sxdg", [], [0])] = some [#[r, i * r], #[i * r, r]] := by decide +kernel
/-- `sx` followed by `sxdg` is the identity -/
theorem C19_qelib_sx_sxdg : exactColumns 1 [("sx", [], [0]), ("sxdg", [], [0])] = some [#[1, 0], #[0, 1]] := by decide +kernel

/-- rotations by the angles representable here: `rx(π) = −iX`, `ry(π) = −iY`, `rz(π/2) = u1(π/2) = S` -/
theorem C19_qelib_rx_pi : exactColumns 1 [("rx", [⟨4⟩], [0])] = some [#[0, -i], #[-i, 0]] := by decide +kernel
theorem C19_qelib_ry_pi : exactColumns 1 [("ry", [⟨4⟩], [0])] = some [#[0, 1], #[-1, 0]] := by decide +kernel
theorem C19_qelib_rz_half_pi : exactColumns 1 [("rz", [⟨2⟩], [0])] = some [#[1, 0], #[0, i]] := by decide +kernel

theorem C19_qelib_cx : exactColumns 2 [("cx", [], [0, 1])] =
    some [#[1, 0, 0, 0], #[0, 1, 0, 0], #[0, 0, 0, 1], #[0, 0, 1, 0]] := by decide +kernel
/-- the control is the first argument also when it is the less significant qubit -/
theorem C19_qelib_cx_reversed : exactColumns 2 [("cx", [], [1, 0])] =
    some [#[1, 0, 0, 0], #[0, 0, 0, 1], #[0, 0, 1, 0], #[0, 1, 0, 0]] := by decide +kernel
theorem C19_qelib_cz : exactColumns 2 [("cz", [], [0, 1])] =
    some [#[1, 0, 0, 0], #[0, 1, 0, 0], #[0, 0, 1, 0], #[0, 0, 0, -1]] := by decide +kernel
theorem C19_qelib_cy : exactColumns 2 [("cy", [], [0, 1])] =
    some [#[1, 0, 0, 0], #[0, 1, 0, 0], #[0, 0, 0, i], #[0, 0, -i, 0]] := by decide +kernel
theorem C19_qelib_swap : exactColumns 2 [("swap", [], [0, 1])] =
    some [#[1, 0, 0, 0], #[0, 0, 1, 0], #[0, 1, 0, 0], #[0, 0, 0, 1]] := by decide +kernel
/-- `qelib1.inc`'s `ch` is the controlled Hadamard times the global phase `e^{iπ/4}` -/
theorem C19_qelib_ch : exactColumns 2 [("ch", [], [0, 1])] =
    some [#[z, 0, 0, 0], #[0, z, 0, 0], #[0, 0, z * r, z * r], #[0, 0, z * r, -(z * r)]] := by decide +kernel
/-- `cu1(π/2)` (`half` of π/2 is exact) = diag(1, 1, 1, i) -/
theorem C19_qelib_cu1_half_pi : exactColumns 2 [("cu1", [⟨2⟩], [0, 1])] =
    some [#[1, 0, 0, 0], #[0, 1, 0, 0], #[0, 0, 1, 0], #[0, 0, 0, i]] := by decide +kernel
/-- `crz(π/2)` = diag(1, 1, e^{−iπ/4}, e^{iπ/4}) -/
theorem C19_qelib_crz_half_pi : exactColumns 2 [("crz", [⟨2⟩], [0, 1])] =
    some [#[1, 0, 0, 0], #[0, 1, 0, 0], #[0, 0, Q8.conj z, 0], #[0, 0, 0, z]] := by decide +kernel

/-- a name outside the library is an error, never silently the identity -/
theorem C19_undefined_gate : exactColumns 1 [("sxx", [], [0])] = none := by decide +kernel
/-- OpenQASM 3.0's `stdgates.inc` does not define `sxdg` -/
theorem C19_stdgates3_no_sxdg : stdgates3.contains "sxdg" = false := by decide

/-- classical registers are little-endian integers -/
theorem C19_creg_value : cregValue [1, 0, 1] = 5 ∧ cregValue [] = 0 ∧ cregValue [0, 1] = 2 := by decide

/-- writing a classical bit and reading the register back: only that bit changes … -/
theorem C19_setBit_get (cregs : List (String × List Nat)) (c : String) (i v : Nat) :
    getBits (setBit cregs c i v) c = (getBits cregs c).set i v := by
  induction cregs with
  | nil => simp [getBits, setBit]
  | cons e es ih =>
    obtain ⟨n, bs⟩ := e
    by_cases hn : n = c <;> simp [getBits, setBit, hn, ih]

/-- … and the other registers are untouched -/
theorem C19_setBit_other (cregs : List (String × List Nat)) (c c' : String) (i v : Nat) (h : c' ≠ c) :
    getBits (setBit cregs c i v) c' = getBits cregs c' := by
  induction cregs with
  | nil => simp [getBits, setBit]
  | cons e es ih =>
    obtain ⟨n, bs⟩ := e
    by_cases hn : n = c
    · subst hn
      have : ¬ n = c' := fun h' => h h'.symm
      simp [getBits, setBit, this, ih]
    · by_cases hn' : n = c'
      · subst hn'; simp [getBits, setBit, h]
      · simp [getBits, setBit, hn, hn', ih]

end CirqVerif.Qasm
