import CirqVerif.Props.C06Rules
/-!
# C08 — `phase_by` closed forms conjugate by the Z rotation, for every parameter value

`cirq.phase_by(g, τ, i)` promises `Z^{2τ} g Z^{-2τ}` on qubit `i` up to global phase.  The closed forms the
gates return (`PhasedXPowGate`: phase exponent + 2τ; `PhasedXZGate`: axis phase exponent + 2τ; diagonal gates:
unchanged) have exactly that matrix.  The harness compares `cirq.phase_by` with the conjugation numerically and
checks that these gates return the closed forms.
-/
namespace CirqVerif.GateDocs
variable {A R : Type} [Lean.Grind.CommRing A] [Lean.Grind.CommRing R]

theorem C08_phase_by_phasedx (E : Env A R) (h : Lawful E) (t p s φ : A) :
    mul (zpow E φ 0) (mul (phasedx E t p s) (zpow E (-φ) 0)) = phasedx E t (p + φ) s := by
  have h1 : E.ph (φ * 0) = 1 := by rw [show φ * 0 = (0 : A) by grind]; exact h.ph_zero
  have h1' : E.ph (-φ * 0) = 1 := by rw [show -φ * 0 = (0 : A) by grind]; exact h.ph_zero
  have h2 : E.ph (t * E.halfA + (p + φ)) = E.ph (t * E.halfA + p) * E.ph φ := by
    rw [← h.ph_add]; congr 1; grind
  have h3 : E.ph (t * E.halfA - (p + φ)) = E.ph (t * E.halfA - p) * E.ph (-φ) := by
    rw [← h.ph_add]; congr 1; grind
  have h4 : E.ph φ * E.ph (-φ) = 1 := ph_neg_mul h φ
  simp only [phasedx, zpow]
  unfold_mul
  simp only [h1, h1', h2, h3]
  mat_eq

theorem C08_phase_by_phasedxz (E : Env A R) (h : Lawful E) (x z a φ : A) :
    mul (zpow E φ 0) (mul (phasedxz E x z a) (zpow E (-φ) 0)) = phasedxz E x z (a + φ) := by
  have h1 : E.ph (φ * 0) = 1 := by rw [show φ * 0 = (0 : A) by grind]; exact h.ph_zero
  have h1' : E.ph (-φ * 0) = 1 := by rw [show -φ * 0 = (0 : A) by grind]; exact h.ph_zero
  have h2 : E.ph (x * E.halfA + z + (a + φ)) = E.ph (x * E.halfA + z + a) * E.ph φ := by
    rw [← h.ph_add]; congr 1; grind
  have h3 : E.ph (x * E.halfA - (a + φ)) = E.ph (x * E.halfA - a) * E.ph (-φ) := by
    rw [← h.ph_add]; congr 1; grind
  have h4 : E.ph φ * E.ph (-φ) = 1 := ph_neg_mul h φ
  simp only [phasedxz, zpow]
  unfold_mul
  simp only [h1, h1', h2, h3]
  mat_eq

theorem C08_phase_by_z (E : Env A R) (h : Lawful E) (t s φ : A) :
    mul (zpow E φ 0) (mul (zpow E t s) (zpow E (-φ) 0)) = zpow E t s := by
  have h1 : E.ph (φ * 0) = 1 := by rw [show φ * 0 = (0 : A) by grind]; exact h.ph_zero
  have h1' : E.ph (-φ * 0) = 1 := by rw [show -φ * 0 = (0 : A) by grind]; exact h.ph_zero
  have h4 : E.ph φ * E.ph (-φ) = 1 := ph_neg_mul h φ
  simp only [zpow]
  unfold_mul
  simp only [h1, h1']
  mat_eq

end CirqVerif.GateDocs
