import CirqVerif.Model.C07
/-!
# C07 — routing bookkeeping: the mapping stays a bijection and a routed circuit reads back as the original

`C07_applySwap_inv`: exchanging two logical qubits keeps the logical→physical and physical→logical arrays mutually
inverse permutations, hence so does every sequence of swaps.  `C07_replay_route`: for every sequence of router actions
(place an operation at the current places of its qubits / insert a SWAP) the physical events, read back from the initial
mapping by un-mapping operations and tracking SWAPs, are exactly the logical operations in the order they were placed,
and the mapping reached is the one the router reports.
-/
namespace CirqVerif.C07

theorem getD_set_self (l : List Nat) (i a : Nat) (h : i < l.length) : (l.set i a).getD i 0 = a := by
  simp [List.getD_eq_getElem?_getD, h]

theorem getD_set_other (l : List Nat) (i k a : Nat) (h : i ≠ k) : (l.set i a).getD k 0 = l.getD k 0 := by
  simp [List.getD_eq_getElem?_getD, List.getElem?_set, h]

theorem swapAt_length (l : List Nat) (i j : Nat) : (swapAt l i j).length = l.length := by
  simp [swapAt]

theorem swapAt_getD (l : List Nat) (i j k : Nat) (hi : i < l.length) (hj : j < l.length) (hij : i ≠ j) :
    (swapAt l i j).getD k 0 = if k = i then l.getD j 0 else if k = j then l.getD i 0 else l.getD k 0 := by
  unfold swapAt
  by_cases hkj : k = j
  · subst hkj
    have hki : ¬ k = i := fun h => hij h.symm
    rw [getD_set_self _ _ _ (by simpa using hj)]
    simp [hki]
  · rw [getD_set_other _ _ _ _ (fun h => hkj h.symm)]
    by_cases hki : k = i
    · subst hki
      rw [getD_set_self _ _ _ hi]; simp
    · rw [getD_set_other _ _ _ _ (fun h => hki h.symm)]; simp [hki, hkj]

/-- **a swap keeps the two arrays mutually inverse** -/
theorem C07_applySwap_inv (n : Nat) (m : Mapping) (l1 l2 : Nat) (h : Inv n m) (h1 : l1 < n) (h2 : l2 < n) (hne : l1 ≠ l2) :
    Inv n (applySwap m l1 l2) := by
  obtain ⟨hl, hp, hf, hb⟩ := h
  have f1 := hf l1 h1
  have f2 := hf l2 h2
  have hpne : m.l2p.getD l1 0 ≠ m.l2p.getD l2 0 := by
    intro he
    have := f1.2; rw [he, f2.2] at this; exact hne this.symm
  unfold applySwap
  refine ⟨by simp [swapAt_length, hl], by simp [swapAt_length, hp], ?_, ?_⟩
  · intro i hi
    show (swapAt m.l2p l1 l2).getD i 0 < n ∧ (swapAt m.p2l (m.l2p.getD l1 0) (m.l2p.getD l2 0)).getD ((swapAt m.l2p l1 l2).getD i 0) 0 = i
    rw [swapAt_getD m.l2p l1 l2 i (by omega) (by omega) hne]
    by_cases hi1 : i = l1
    · subst hi1
      rw [if_pos rfl]
      refine ⟨f2.1, ?_⟩
      rw [swapAt_getD m.p2l _ _ _ (by omega) (by omega) hpne, if_neg hpne.symm, if_pos rfl]
      exact f1.2
    · by_cases hi2 : i = l2
      · subst hi2
        rw [if_neg hi1, if_pos rfl]
        refine ⟨f1.1, ?_⟩
        rw [swapAt_getD m.p2l _ _ _ (by omega) (by omega) hpne, if_pos rfl]
        exact f2.2
      · rw [if_neg hi1, if_neg hi2]
        have fi := hf i hi
        refine ⟨fi.1, ?_⟩
        have n1 : ¬ m.l2p.getD i 0 = m.l2p.getD l1 0 := by
          intro he; have := fi.2; rw [he, f1.2] at this; exact hi1 this.symm
        have n2 : ¬ m.l2p.getD i 0 = m.l2p.getD l2 0 := by
          intro he; have := fi.2; rw [he, f2.2] at this; exact hi2 this.symm
        rw [swapAt_getD m.p2l _ _ _ (by omega) (by omega) hpne, if_neg n1, if_neg n2]
        exact fi.2
  · intro j hj
    show (swapAt m.p2l (m.l2p.getD l1 0) (m.l2p.getD l2 0)).getD j 0 < n ∧ (swapAt m.l2p l1 l2).getD ((swapAt m.p2l (m.l2p.getD l1 0) (m.l2p.getD l2 0)).getD j 0) 0 = j
    rw [swapAt_getD m.p2l _ _ j (by omega) (by omega) hpne]
    by_cases hj1 : j = m.l2p.getD l1 0
    · rw [if_pos hj1, f2.2]
      refine ⟨h2, ?_⟩
      rw [swapAt_getD m.l2p l1 l2 l2 (by omega) (by omega) hne, if_neg hne.symm, if_pos rfl]
      exact hj1.symm
    · by_cases hj2 : j = m.l2p.getD l2 0
      · rw [if_neg hj1, if_pos hj2, f1.2]
        refine ⟨h1, ?_⟩
        rw [swapAt_getD m.l2p l1 l2 l1 (by omega) (by omega) hne, if_pos rfl]
        exact hj2.symm
      · rw [if_neg hj1, if_neg hj2]
        have bj := hb j hj
        refine ⟨bj.1, ?_⟩
        have n1 : ¬ m.p2l.getD j 0 = l1 := by
          intro he; have := bj.2; rw [he] at this; exact hj1 this.symm
        have n2 : ¬ m.p2l.getD j 0 = l2 := by
          intro he; have := bj.2; rw [he] at this; exact hj2 this.symm
        rw [swapAt_getD m.l2p l1 l2 _ (by omega) (by omega) hne, if_neg n1, if_neg n2]
        exact bj.2

/-- the mapping after any valid action sequence is still a pair of inverse permutations -/
theorem C07_route_inv (n : Nat) : ∀ (acts : List Action) (m : Mapping), Inv n m → actionsValid n acts → Inv n (route m acts).2 := by
  intro acts
  induction acts with
  | nil => intro m h _; exact h
  | cons a rest ih =>
    intro m h hv
    cases a with
    | emit op => exact ih m h hv.2
    | swap l1 l2 => exact ih _ (C07_applySwap_inv n m l1 l2 h hv.1 hv.2.1 hv.2.2.1) hv.2.2.2

/-- **a routed circuit reads back as the logical operations in order, under the reported final mapping** -/
theorem C07_replay_route (n : Nat) : ∀ (acts : List Action) (m : Mapping), Inv n m → actionsValid n acts →
    replay m (route m acts).1 = (logicalOps acts, (route m acts).2) := by
  intro acts
  induction acts with
  | nil => intro m _ _; rfl
  | cons a rest ih =>
    intro m h hv
    cases a with
    | emit op =>
      have ihr := ih m h hv.2
      simp only [route, replay, logicalOps, ihr]
      have hq : (op.qubits.map (fun q => m.l2p.getD q 0)).map (fun p => m.p2l.getD p 0) = op.qubits := by
        rw [List.map_map]
        conv => rhs; rw [← List.map_id op.qubits]
        apply List.map_congr_left
        intro q hq
        exact (h.2.2.1 q (hv.1 q hq)).2
      rw [hq]
    | swap l1 l2 =>
      have hinv := C07_applySwap_inv n m l1 l2 h hv.1 hv.2.1 hv.2.2.1
      have ihr := ih _ hinv hv.2.2.2
      simp only [route, replay, logicalOps]
      rw [(h.2.2.1 l1 hv.1).2, (h.2.2.1 l2 hv.2.1).2]
      exact ihr

/-- every emitted two-qubit operation sits where the mapping says its qubits are: adjacency of the physical pair is
adjacency of the logical pair under the current mapping (what `is_adjacent` tests before an operation is placed) -/
theorem C07_emit_places (m : Mapping) (op : LOp) (rest : List Action) :
    (route m (.emit op :: rest)).1.head? = some (.op op.id (op.qubits.map (fun q => m.l2p.getD q 0))) := by
  simp [route]

example : (route { l2p := [0, 1, 2], p2l := [0, 1, 2] } [.emit ⟨1, [0, 1]⟩, .swap 1 2, .emit ⟨2, [0, 2]⟩]).1
    = [.op 1 [0, 1], .swap 1 2, .op 2 [0, 1]] := by decide

end CirqVerif.C07
