import CirqVerif.Model.C15
/-!
# C15 — the KAK interaction coefficients are canonical, for all inputs

`C15_canonicalize_canonical`: for every unit `q > 0` and every input vector the result of the normalisation lies in
the Weyl chamber `0 ≤ |z| ≤ y ≤ x ≤ π/4` with `z ≥ 0` when `x = π/4`; `C15_canonicalize_move`: it is reached from
the input by the symmetry moves only (shifts by multiples of π/2, double negations, swaps); `C15_canonical_fixed`:
a canonical vector is left unchanged.
-/
namespace CirqVerif.C15

theorem cshift_range (q v : Int) (hq : 0 < q) : -q < cshift q v ∧ cshift q v ≤ q := by
  unfold cshift
  have h1 := Int.emod_nonneg (v + q - 1) (by omega : (2 * q) ≠ 0)
  have h2 := Int.emod_lt_of_pos (v + q - 1) (by omega : 0 < 2 * q)
  omega

theorem cshift_congr (q v : Int) : ∃ k, cshift q v = v + 2 * q * k := by
  refine ⟨-((v + q - 1) / (2 * q)), ?_⟩
  unfold cshift
  have := Int.emod_add_mul_ediv (v + q - 1) (2 * q)
  have h2 : 2 * q * -((v + q - 1) / (2 * q)) = -(2 * q * ((v + q - 1) / (2 * q))) := by
    rw [Int.mul_neg]
  rw [h2]; omega

theorem cshift_id (q v : Int) (h1 : -q < v) (h2 : v ≤ q) : cshift q v = v := by
  unfold cshift
  have : (v + q - 1) % (2 * q) = v + q - 1 := Int.emod_eq_of_lt (by omega) (by omega)
  omega

theorem cshift_neg_q (q : Int) (hq : 0 < q) : cshift q (-q) = q := by
  obtain ⟨k, hk⟩ := cshift_congr q (-q)
  have hr := cshift_range q (-q) hq
  rw [hk] at hr
  -- −q + 2qk ∈ (−q, q]  forces k = 1
  have hk0 : 0 < k := by
    by_cases h : 0 < k
    · exact h
    · have hle : k ≤ 0 := by omega
      have : 2 * q * k ≤ 0 := Int.mul_nonpos_of_nonneg_of_nonpos (by omega) hle
      omega
  have hk1 : k ≤ 1 := by
    by_cases h : 1 < k
    · have : 2 * q * 2 ≤ 2 * q * k := Int.mul_le_mul_of_nonneg_left (by omega) (by omega)
      omega
    · omega
  have hk' : k = 1 := by omega
  rw [hk, hk']; omega

theorem absI_cases (a : Int) : (0 ≤ a ∧ absI a = a) ∨ (a < 0 ∧ absI a = -a) := by
  unfold absI; by_cases h : a < 0 <;> simp [h] <;> omega

theorem cswap_cases (a b : Int) : (cswap a b = (a, b) ∧ absI b ≤ absI a) ∨ (cswap a b = (b, a) ∧ absI a < absI b) := by
  unfold cswap
  by_cases h : absI a < absI b
  · right; simp [h]
  · left; simp [h]; omega

/-- `sort3` orders by decreasing magnitude; every component of the result is a component of the input -/
theorem sort3_spec (v : V3) :
    absI (sort3 v).z ≤ absI (sort3 v).y ∧ absI (sort3 v).y ≤ absI (sort3 v).x ∧
    (∀ P : Int → Prop, P v.x → P v.y → P v.z → P (sort3 v).x ∧ P (sort3 v).y ∧ P (sort3 v).z) := by
  obtain ⟨x, y, z⟩ := v
  unfold sort3
  simp only
  rcases cswap_cases x y with ⟨h1, a1⟩ | ⟨h1, a1⟩ <;> rw [h1] <;> simp only
  all_goals
    first
    | (rcases cswap_cases y z with ⟨h2, a2⟩ | ⟨h2, a2⟩ <;> rw [h2] <;> simp only <;>
        first
        | (rcases cswap_cases x y with ⟨h3, a3⟩ | ⟨h3, a3⟩ <;> rw [h3] <;> simp only <;>
            exact ⟨by omega, by omega, fun P px py pz => ⟨by assumption, by assumption, by assumption⟩⟩)
        | (rcases cswap_cases x z with ⟨h3, a3⟩ | ⟨h3, a3⟩ <;> rw [h3] <;> simp only <;>
            exact ⟨by omega, by omega, fun P px py pz => ⟨by assumption, by assumption, by assumption⟩⟩))
    | (rcases cswap_cases x z with ⟨h2, a2⟩ | ⟨h2, a2⟩ <;> rw [h2] <;> simp only <;>
        first
        | (rcases cswap_cases y x with ⟨h3, a3⟩ | ⟨h3, a3⟩ <;> rw [h3] <;> simp only <;>
            exact ⟨by omega, by omega, fun P px py pz => ⟨by assumption, by assumption, by assumption⟩⟩)
        | (rcases cswap_cases y z with ⟨h3, a3⟩ | ⟨h3, a3⟩ <;> rw [h3] <;> simp only <;>
            exact ⟨by omega, by omega, fun P px py pz => ⟨by assumption, by assumption, by assumption⟩⟩))

theorem neg_steps (q : Int) (s : V3) (hzy : absI s.z ≤ absI s.y) (hyx : absI s.y ≤ absI s.x)
    (bx : -q < s.x ∧ s.x ≤ q) (bz : -q < s.z ∧ s.z ≤ q) :
    absI (negYZIf (negXZIf s)).z ≤ (negYZIf (negXZIf s)).y ∧ (negYZIf (negXZIf s)).y ≤ (negYZIf (negXZIf s)).x ∧
    (negYZIf (negXZIf s)).x ≤ q ∧ -q ≤ (negYZIf (negXZIf s)).z ∧ (negYZIf (negXZIf s)).z ≤ q := by
  obtain ⟨sx, sy, sz⟩ := s
  simp only at hzy hyx bx bz
  rcases absI_cases sx with ⟨hx0, ex⟩ | ⟨hx0, ex⟩ <;> rcases absI_cases sy with ⟨hy0, ey⟩ | ⟨hy0, ey⟩ <;>
    rcases absI_cases sz with ⟨hz0, ez⟩ | ⟨hz0, ez⟩ <;> rw [ex, ey] at hyx <;> rw [ey, ez] at hzy
  all_goals
    by_cases h0 : sx < 0 <;> by_cases h1 : sy < 0 <;> simp [negXZIf, negYZIf, h0, h1] <;>
      first
      | omega
      | (rcases absI_cases (-sz) with ⟨hn, en⟩ | ⟨hn, en⟩ <;> rw [en] <;> omega)
      | (rcases absI_cases sz with ⟨hn, en⟩ | ⟨hn, en⟩ <;> rw [en] <;> omega)

theorem final_step (q : Int) (hq : 0 < q) (x y z : Int) (hzy : absI z ≤ y) (hyx : y ≤ x) (hxq : x ≤ q)
    (hz1 : -q ≤ z) (hz2 : z ≤ q) : Canonical q (fixBoundary q (shiftZ q { x := x, y := y, z := z })) := by
  have hc : cshift q z = if z = -q then q else z := by
    by_cases hw : z = -q
    · subst hw; simp [cshift_neg_q q hq]
    · simp [hw]; exact cshift_id q z (by omega) hz2
  simp only [shiftZ, hc]
  rcases absI_cases z with ⟨hz0, ez⟩ | ⟨hz0, ez⟩ <;> rw [ez] at hzy
  · -- z ≥ 0: nothing happens
    have hne : ¬ z = -q := by omega
    simp only [hne, if_false, fixBoundary]
    have : ¬ (x = q ∧ z < 0) := by omega
    simp only [this, if_false, Canonical]
    refine ⟨by rw [ez]; exact hzy, hyx, hxq, fun _ => hz0⟩
  · by_cases hw : z = -q
    · -- z = −q becomes q (then x = y = q)
      simp only [hw, if_true, fixBoundary]
      have : ¬ (x = q ∧ q < 0) := by omega
      simp only [this, if_false, Canonical]
      rcases absI_cases q with ⟨_, eq⟩ | ⟨h, _⟩
      · exact ⟨by rw [eq]; omega, hyx, hxq, fun _ => by omega⟩
      · omega
    · simp only [hw, if_false, fixBoundary]
      by_cases hb : x = q ∧ z < 0
      · simp only [hb, and_self, if_true, Canonical]
        rcases absI_cases (-z) with ⟨_, en⟩ | ⟨h, _⟩
        · exact ⟨by rw [en]; omega, by omega, by omega, fun _ => by omega⟩
        · omega
      · simp only [hb, if_false, Canonical]
        exact ⟨by rw [ez]; exact hzy, hyx, hxq, fun hxq' => by omega⟩

/-- **the returned interaction coefficients are canonical, for every input** -/
theorem C15_canonicalize_canonical (q : Int) (hq : 0 < q) (v : V3) : Canonical q (canonicalize q v) := by
  have rx := cshift_range q v.x hq
  have ry := cshift_range q v.y hq
  have rz := cshift_range q v.z hq
  obtain ⟨hzy, hyx, hP⟩ := sort3_spec (shift3 q v)
  obtain ⟨bx, _, bz⟩ := hP (fun t => -q < t ∧ t ≤ q) rx ry rz
  obtain ⟨h1, h2, h3, h4, h5⟩ := neg_steps q (sort3 (shift3 q v)) hzy hyx bx bz
  unfold canonicalize
  generalize negYZIf (negXZIf (sort3 (shift3 q v))) = r at h1 h2 h3 h4 h5
  obtain ⟨x, y, z⟩ := r
  exact final_step q hq x y z h1 h2 h3 h4 h5

/-! ### the result is reached by symmetry moves only -/

theorem Move.trans {q : Int} {a b c : V3} (h1 : Move q a b) (h2 : Move q b c) : Move q a c := by
  induction h1 with
  | refl v => exact h2
  | shiftX k v w _ ih => exact Move.shiftX k v c (ih h2)
  | shiftY k v w _ ih => exact Move.shiftY k v c (ih h2)
  | shiftZ k v w _ ih => exact Move.shiftZ k v c (ih h2)
  | negXZ v w _ ih => exact Move.negXZ v c (ih h2)
  | negYZ v w _ ih => exact Move.negYZ v c (ih h2)
  | swapXY v w _ ih => exact Move.swapXY v c (ih h2)
  | swapYZ v w _ ih => exact Move.swapYZ v c (ih h2)

theorem move_shift3 (q : Int) (v : V3) : Move q v (shift3 q v) := by
  obtain ⟨kx, hx⟩ := cshift_congr q v.x
  obtain ⟨ky, hy⟩ := cshift_congr q v.y
  obtain ⟨kz, hz⟩ := cshift_congr q v.z
  obtain ⟨x, y, z⟩ := v
  simp only at hx hy hz
  refine Move.shiftX kx _ _ (Move.shiftY ky _ _ (Move.shiftZ kz _ _ ?_))
  simp only [shift3, hx, hy, hz]
  exact Move.refl _

theorem move_sort3 (q : Int) (v : V3) : Move q v (sort3 v) := by
  obtain ⟨x, y, z⟩ := v
  unfold sort3
  simp only
  rcases cswap_cases x y with ⟨h1, _⟩ | ⟨h1, _⟩ <;> rw [h1] <;> simp only
  · rcases cswap_cases y z with ⟨h2, _⟩ | ⟨h2, _⟩ <;> rw [h2] <;> simp only
    · rcases cswap_cases x y with ⟨h3, _⟩ | ⟨h3, _⟩ <;> rw [h3] <;> simp only
      · exact Move.refl _
      · exact Move.swapXY _ _ (Move.refl _)
    · rcases cswap_cases x z with ⟨h3, _⟩ | ⟨h3, _⟩ <;> rw [h3] <;> simp only
      · exact Move.swapYZ _ _ (Move.refl _)
      · exact Move.swapYZ _ _ (Move.swapXY _ _ (Move.refl _))
  · rcases cswap_cases x z with ⟨h2, _⟩ | ⟨h2, _⟩ <;> rw [h2] <;> simp only
    · rcases cswap_cases y x with ⟨h3, _⟩ | ⟨h3, _⟩ <;> rw [h3] <;> simp only
      · exact Move.swapXY _ _ (Move.refl _)
      · exact Move.swapXY _ _ (Move.swapXY _ _ (Move.refl _))
    · rcases cswap_cases y z with ⟨h3, _⟩ | ⟨h3, _⟩ <;> rw [h3] <;> simp only
      · exact Move.swapXY _ _ (Move.swapYZ _ _ (Move.refl _))
      · exact Move.swapXY _ _ (Move.swapYZ _ _ (Move.swapXY _ _ (Move.refl _)))

theorem move_negXZIf (q : Int) (v : V3) : Move q v (negXZIf v) := by
  unfold negXZIf
  split
  · exact Move.negXZ _ _ (Move.refl _)
  · exact Move.refl _

theorem move_negYZIf (q : Int) (v : V3) : Move q v (negYZIf v) := by
  unfold negYZIf
  split
  · exact Move.negYZ _ _ (Move.refl _)
  · exact Move.refl _

theorem move_shiftZ (q : Int) (v : V3) : Move q v (shiftZ q v) := by
  obtain ⟨k, hk⟩ := cshift_congr q v.z
  refine Move.shiftZ k _ _ ?_
  simp only [shiftZ, hk]
  exact Move.refl _

theorem move_fixBoundary (q : Int) (v : V3) : Move q v (fixBoundary q v) := by
  unfold fixBoundary
  split
  · refine Move.shiftX (-1) _ _ (Move.negXZ _ _ ?_)
    have : -(v.x + 2 * q * -1) = -(v.x - 2 * q) := by omega
    simp only [this]
    exact Move.refl _
  · exact Move.refl _

/-- **the canonical coefficients are reached from the input by the symmetry moves only** -/
theorem C15_canonicalize_move (q : Int) (v : V3) : Move q v (canonicalize q v) := by
  unfold canonicalize
  exact (move_shift3 q v).trans ((move_sort3 q _).trans ((move_negXZIf q _).trans ((move_negYZIf q _).trans
    ((move_shiftZ q _).trans (move_fixBoundary q _)))))

/-- **a canonical vector is left unchanged** (so the normalisation is idempotent) -/
theorem C15_canonical_fixed (q : Int) (hq : 0 < q) (v : V3) (h : Canonical q v) : canonicalize q v = v := by
  obtain ⟨x, y, z⟩ := v
  obtain ⟨hzy, hyx, hxq, hb⟩ := h
  simp only at hzy hyx hxq hb
  rcases absI_cases z with ⟨hz0, ez⟩ | ⟨hz0, ez⟩ <;> rw [ez] at hzy
  all_goals
    have hy0 : 0 ≤ y := by omega
    have hx0 : 0 ≤ x := by omega
    have hzl : -q < z := by
      by_cases hh : x = q
      · have := hb hh; omega
      · omega
    have ax : absI x = x := by
      rcases absI_cases x with ⟨_, e⟩ | ⟨h', _⟩
      · exact e
      · omega
    have ay : absI y = y := by
      rcases absI_cases y with ⟨_, e⟩ | ⟨h', _⟩
      · exact e
      · omega
    have s1 : shift3 q { x := x, y := y, z := z } = { x := x, y := y, z := z } := by
      simp only [shift3, cshift_id q x (by omega) hxq, cshift_id q y (by omega) (by omega), cshift_id q z hzl (by omega)]
    have c1 : cswap x y = (x, y) := by unfold cswap; rw [ax, ay]; simp; omega
    have c2 : cswap y z = (y, z) := by unfold cswap; rw [ay, ez]; simp; omega
    have s2 : sort3 { x := x, y := y, z := z } = { x := x, y := y, z := z } := by
      simp only [sort3, c1, c2]
    unfold canonicalize
    rw [s1, s2]
    have n1 : negXZIf { x := x, y := y, z := z } = { x := x, y := y, z := z } := by
      simp [negXZIf]; omega
    have n2 : negYZIf { x := x, y := y, z := z } = { x := x, y := y, z := z } := by
      simp [negYZIf]; omega
    rw [n1, n2]
    have s3 : shiftZ q { x := x, y := y, z := z } = { x := x, y := y, z := z } := by
      simp only [shiftZ, cshift_id q z hzl (by omega)]
    rw [s3]
    unfold fixBoundary
    have : ¬ (x = q ∧ z < 0) := by
      intro ⟨hxq', hz'⟩
      have := hb hxq'; omega
    simp [this]

theorem C15_canonicalize_idempotent (q : Int) (hq : 0 < q) (v : V3) :
    canonicalize q (canonicalize q v) = canonicalize q v :=
  C15_canonical_fixed q hq _ (C15_canonicalize_canonical q hq v)

example : canonicalize 4 { x := 9, y := -3, z := 6 } = { x := 3, y := 2, z := 1 } := by decide
example : canonicalize 4 { x := 4, y := 1, z := -1 } = { x := 4, y := 1, z := 1 } := by decide

end CirqVerif.C15
