import CirqVerif.Model.C12Terminal
/-!
# C12 — terminal measurements: two repetitions decide

The implementation answers `are_all_measurements_terminal` / `are_any_measurements_terminal` (and through them `has_unitary`,
`Circuit.unitary` and the simulators' choice of the sampling fast path) on the wrapped circuit by flattening every
sub-circuit operation, repeating a body at most twice.  `C12_all_terminal_two_repetitions` /
`C12_any_terminal_two_repetitions` say that this loses nothing: for two or more repetitions the answers do not depend on
the count; `C12_terminal_zero_repetitions`: a body that is not run does not count; one repetition is not enough.
-/
namespace CirqVerif.C12

variable {α : Type}

theorem allTerm_append (qs : α → List Nat) (m : α → Bool) (a b t : List α) :
    allTerm qs m (a ++ b) t = (allTerm qs m a (b ++ t) && allTerm qs m b t) := by
  induction a with
  | nil => simp [allTerm]
  | cons o rest ih => simp [allTerm, ih, List.append_assoc, Bool.and_assoc]

theorem anyTerm_append (qs : α → List Nat) (m : α → Bool) (a b t : List α) :
    anyTerm qs m (a ++ b) t = (anyTerm qs m a (b ++ t) || anyTerm qs m b t) := by
  induction a with
  | nil => simp [anyTerm]
  | cons o rest ih => simp [anyTerm, ih, List.append_assoc, Bool.or_assoc]

theorem all_congr_mem (f : α → Bool) (l t t' : List α) (h : ∀ p, p ∈ t ↔ p ∈ t') :
    (l ++ t).all f = (l ++ t').all f := by
  rw [Bool.eq_iff_iff]
  simp only [List.all_eq_true, List.mem_append]
  constructor <;> intro hh p hp <;> apply hh <;> rcases hp with hp | hp
  · exact Or.inl hp
  · exact Or.inr ((h p).mpr hp)
  · exact Or.inl hp
  · exact Or.inr ((h p).mp hp)

/-- what follows matters only as a set -/
theorem allTerm_tail_congr (qs : α → List Nat) (m : α → Bool) (l t t' : List α) (h : ∀ p, p ∈ t ↔ p ∈ t') :
    allTerm qs m l t = allTerm qs m l t' := by
  induction l with
  | nil => rfl
  | cons o rest ih => simp only [allTerm, all_congr_mem (disj qs o) rest t t' h, ih]

theorem anyTerm_tail_congr (qs : α → List Nat) (m : α → Bool) (l t t' : List α) (h : ∀ p, p ∈ t ↔ p ∈ t') :
    anyTerm qs m l t = anyTerm qs m l t' := by
  induction l with
  | nil => rfl
  | cons o rest ih => simp only [anyTerm, all_congr_mem (disj qs o) rest t t' h, ih]

theorem mem_rep_succ (b : List α) (n : Nat) (p : α) : p ∈ rep (n + 1) b ↔ p ∈ b := by
  induction n with
  | zero => simp [rep]
  | succ n ih =>
    have : rep (n + 2) b = b ++ rep (n + 1) b := rfl
    rw [this, List.mem_append, ih]
    simp

theorem mem_rep_tail (b post : List α) (n : Nat) (p : α) : p ∈ rep (n + 1) b ++ post ↔ p ∈ b ++ post := by
  simp only [List.mem_append, mem_rep_succ]

/-- closed form: a body repeated two or more times, followed by `post` -/
theorem allTerm_rep (qs : α → List Nat) (m : α → Bool) (b post : List α) (n : Nat) :
    allTerm qs m (rep (n + 2) b) post = (allTerm qs m b (b ++ post) && allTerm qs m b post) := by
  induction n with
  | zero =>
    have e : rep 2 b = b ++ (b ++ []) := rfl
    rw [e, allTerm_append, List.append_nil]
  | succ n ih =>
    have e : rep (n + 3) b = b ++ rep (n + 2) b := rfl
    rw [e, allTerm_append, ih, allTerm_tail_congr qs m b _ _ (mem_rep_tail b post (n + 1))]
    cases allTerm qs m b (b ++ post) <;> simp

theorem anyTerm_rep (qs : α → List Nat) (m : α → Bool) (b post : List α) (n : Nat) :
    anyTerm qs m (rep (n + 2) b) post = (anyTerm qs m b (b ++ post) || anyTerm qs m b post) := by
  induction n with
  | zero =>
    have e : rep 2 b = b ++ (b ++ []) := rfl
    rw [e, anyTerm_append, List.append_nil]
  | succ n ih =>
    have e : rep (n + 3) b = b ++ rep (n + 2) b := rfl
    rw [e, anyTerm_append, ih, anyTerm_tail_congr qs m b _ _ (mem_rep_tail b post (n + 1))]
    cases anyTerm qs m b (b ++ post) <;> simp

/-- **two repetitions decide `all terminal`**: between any operations before and after, a body repeated `n + 2` times
answers as the body repeated twice -/
theorem C12_all_terminal_two_repetitions (qs : α → List Nat) (m : α → Bool) (pre b post : List α) (n : Nat) :
    allTerm qs m (pre ++ rep (n + 2) b ++ post) [] = allTerm qs m (pre ++ rep 2 b ++ post) [] := by
  have hpre : allTerm qs m pre (rep (n + 2) b ++ post) = allTerm qs m pre (rep 2 b ++ post) := by
    apply allTerm_tail_congr
    intro p
    rw [mem_rep_tail b _ (n + 1), mem_rep_tail b _ 1]
  rw [List.append_assoc, List.append_assoc, allTerm_append, allTerm_append, allTerm_append, allTerm_append]
  simp only [List.append_nil]
  rw [hpre, allTerm_rep qs m b _ n, allTerm_rep qs m b _ 0]

/-- **two repetitions decide `any terminal`** -/
theorem C12_any_terminal_two_repetitions (qs : α → List Nat) (m : α → Bool) (pre b post : List α) (n : Nat) :
    anyTerm qs m (pre ++ rep (n + 2) b ++ post) [] = anyTerm qs m (pre ++ rep 2 b ++ post) [] := by
  have hpre : anyTerm qs m pre (rep (n + 2) b ++ post) = anyTerm qs m pre (rep 2 b ++ post) := by
    apply anyTerm_tail_congr
    intro p
    rw [mem_rep_tail b _ (n + 1), mem_rep_tail b _ 1]
  rw [List.append_assoc, List.append_assoc, anyTerm_append, anyTerm_append, anyTerm_append, anyTerm_append]
  simp only [List.append_nil]
  rw [hpre, anyTerm_rep qs m b _ n, anyTerm_rep qs m b _ 0]

/-- a body that is repeated zero times does not take part in either question -/
theorem C12_terminal_zero_repetitions (qs : α → List Nat) (m : α → Bool) (pre b post : List α) :
    allTerm qs m (pre ++ rep 0 b ++ post) [] = allTerm qs m (pre ++ post) [] ∧
    anyTerm qs m (pre ++ rep 0 b ++ post) [] = anyTerm qs m (pre ++ post) [] := by
  simp [rep]

/-- one repetition is *not* enough in general: a measurement at the end of a body that starts with a gate on the same
qubit is terminal in one copy and not in two -/
example : allTerm (fun (o : Nat × Bool) => [o.1]) (·.2) (rep 1 [(0, false), (0, true)]) [] = true ∧
    allTerm (fun (o : Nat × Bool) => [o.1]) (·.2) (rep 2 [(0, false), (0, true)]) [] = false := by decide

/-! ### record shapes: a key recorded by a repeated body has one instance per repetition and occurrence -/

theorem instances_append {κ : Type} [BEq κ] (keyOf : α → Option κ) (k : κ) (a b : List α) :
    instances keyOf k (a ++ b) = instances keyOf k a + instances keyOf k b := by
  simp [instances, List.filter_append]

/-- **a body repeated `n` times records each of its keys `n` times as often** (what `Sampler._get_measurement_shapes`
has to report for a sub-circuit operation without repetition ids) -/
theorem C12_instances_repeated (κ : Type) [BEq κ] (keyOf : α → Option κ) (k : κ) (b : List α) (n : Nat) :
    instances keyOf k (rep n b) = n * instances keyOf k b := by
  induction n with
  | zero => simp [rep, instances]
  | succ n ih => rw [rep, instances_append, ih, Nat.succ_mul, Nat.add_comm]

end CirqVerif.C12
