import CirqVerif.Props.C19
/-! the two heavy kernel evaluations of `Props.C19` (built in parallel with the rest) -/
namespace CirqVerif.Qasm
open CirqVerif

/-- the 15-gate Clifford+T expansion of `ccx` is exactly the Toffoli permutation -/
theorem C19_qelib_ccx : exactColumns 3 [("ccx", [], [0, 1, 2])] =
    some [#[1, 0, 0, 0, 0, 0, 0, 0], #[0, 1, 0, 0, 0, 0, 0, 0], #[0, 0, 1, 0, 0, 0, 0, 0], #[0, 0, 0, 1, 0, 0, 0, 0],
          #[0, 0, 0, 0, 1, 0, 0, 0], #[0, 0, 0, 0, 0, 1, 0, 0], #[0, 0, 0, 0, 0, 0, 0, 1], #[0, 0, 0, 0, 0, 0, 1, 0]] := by
  decide +kernel
end CirqVerif.Qasm
