import CirqVerif.Proofs.GateDocs
import CirqVerif.Spec.Qasm
/-!
# C19 — the parametric lines Cirq emits denote the documented gate matrices, for every parameter value

`Props/C19.lean` checks the parameter-free gates of `qelib1.inc` exactly.  Here the parametric spellings are
evaluated symbolically: the *same* `expandGate` the interpreter of the emitted text uses (Spec/Qasm), with angles
in half turns (`pi*t` ↦ `t`, as `QasmArgs` formats them) and the elementary functions of the gate documentation
(`Env`, Spec/GateDocs).  Each theorem says: the line(s) Cirq prints for a gate family expand to the matrix the
family's docstring defines, with the stated global phase, over any commutative ring with a lawful phase map in
which `e^{iπ/2} = i` (`LawfulQ`; satisfied by ℂ — NonVacuity/ComplexModel.lean).  The `emission` stream of the C19
harness checks that Cirq prints exactly these spellings.
-/
namespace CirqVerif.Qasm
open CirqVerif CirqVerif.GateDocs
variable {A R : Type} [Lean.Grind.CommRing A] [Lean.Grind.CommRing R]

/-- angles as Cirq prints them: `pi*t` is the half-turn count `t` -/
@[reducible] def halfTurns (E : Env A R) : Angle A where
  zero := 0
  pi := 1
  half x := x * E.halfA
  neg x := -x
  add x y := x + y

/-- the functions `U(θ,φ,λ)` needs, from the functions the gate documentation uses -/
def envTrig (E : Env A R) : Trig A R where
  cosHalf θ := E.cosπ (θ * E.halfA)
  sinHalf θ := E.sinπ (θ * E.halfA)
  cis α := E.ph α

/-- row-major 2×2 -/
def flat2 (m : M R) : Array R :=
  #[(m.getD 0 []).getD 0 0, (m.getD 0 []).getD 1 0, (m.getD 1 []).getD 0 0, (m.getD 1 []).getD 1 0]

/-- `b · a` for row-major 2×2 arrays -/
def mul2 (b a : Array R) : Array R :=
  #[b.getD 0 0 * a.getD 0 0 + b.getD 1 0 * a.getD 2 0, b.getD 0 0 * a.getD 1 0 + b.getD 1 0 * a.getD 3 0,
    b.getD 2 0 * a.getD 0 0 + b.getD 3 0 * a.getD 2 0, b.getD 2 0 * a.getD 1 0 + b.getD 3 0 * a.getD 3 0]

omit [Lean.Grind.CommRing R] in
@[simp] theorem getD4_0 (a b c d x : R) : (#[a, b, c, d] : Array R).getD 0 x = a := rfl
omit [Lean.Grind.CommRing R] in
@[simp] theorem getD4_1 (a b c d x : R) : (#[a, b, c, d] : Array R).getD 1 x = b := rfl
omit [Lean.Grind.CommRing R] in
@[simp] theorem getD4_2 (a b c d x : R) : (#[a, b, c, d] : Array R).getD 2 x = c := rfl
omit [Lean.Grind.CommRing R] in
@[simp] theorem getD4_3 (a b c d x : R) : (#[a, b, c, d] : Array R).getD 3 x = d := rfl

/-- the matrix of a list of one-qubit library gate applications (first applied first), through the *same*
`expandGate` the interpreter of the emitted text uses -/
def oneQubit (E : Env A R) (gates : List (String × List A)) : Option (Array R) :=
  letI := halfTurns E
  gates.foldl (fun acc g => match acc, expandGate g.1 g.2 [0] with
    | some m, some prims => some (prims.foldl (fun m pr => match pr with
        | .u θ φ lam _ => mul2 (uMatrix (envTrig E) θ φ lam) m
        | .cx _ _ => m) m)
    | _, _ => none) (some #[1, 0, 0, 1])

structure LawfulQ (E : Env A R) : Prop extends Lawful E where
  ph_half : E.ph E.halfA = E.I

section facts
variable {E : Env A R} (h : LawfulQ E)
include h

theorem ph_half_one : E.ph (1 * E.halfA) = E.I := by
  rw [show (1 : A) * E.halfA = E.halfA by grind]; exact h.ph_half

theorem ph_neg_half : E.ph (-(1 * E.halfA)) = -E.I := by
  have := ph_neg_mul h.toLawful (1 * E.halfA); rw [ph_half_one h] at this
  have hi := h.I_sq
  grind

theorem ph_one : E.ph 1 = -1 := by
  have : (1 : A) = E.halfA + E.halfA := h.halfA_def.symm
  rw [this, h.ph_add, h.ph_half, h.I_sq]

end facts

macro "arr_eq" : tactic => `(tactic|
  (congr 1
   simp only [List.cons.injEq, and_true]
   refine ⟨?_, ?_, ?_, ?_⟩ <;> grind))

/-- `XPowGate(t)` / `Rx(πt)` is emitted as `rx(pi*t)`: `u3(θ, −π/2, π/2)` is the documented rotation -/
theorem C19_emit_rx (E : Env A R) (h : LawfulQ E) (t : A) :
    oneQubit E [("rx", [t])] = some (flat2 (xpow E t (-E.halfA))) := by
  have h1 := ph_half_one h; have h2 := ph_neg_half h
  have h3 : E.ph (t * (-E.halfA + E.halfA)) = 1 := by
    rw [show t * (-E.halfA + E.halfA) = (0:A) by grind]; exact h.ph_zero
  have h4 : E.ph (-E.halfA + E.halfA) = 1 := by
    rw [show -E.halfA + E.halfA = (0:A) by grind]; exact h.ph_zero
  have he : (letI := halfTurns E; expandGate "rx" [t] [0]) = some [.u t (-(1 * E.halfA)) (1 * E.halfA) 0] := rfl
  simp only [oneQubit, List.foldl_cons, List.foldl_nil, he, uMatrix, envTrig, mul2, xpow, flat2, smul, h1, h2, h3, List.map_cons, List.map_nil,
    List.getD_cons_zero, List.getD_cons_succ, Option.some.injEq, getD4_0, getD4_1, getD4_2, getD4_3]
  arr_eq

/-- `YPowGate(t)` / `Ry(πt)` is emitted as `ry(pi*t)` = `u3(θ, 0, 0)` -/
theorem C19_emit_ry (E : Env A R) (h : LawfulQ E) (t : A) :
    oneQubit E [("ry", [t])] = some (flat2 (ypow E t (-E.halfA))) := by
  have h0 := h.ph_zero
  have h3 : E.ph (t * (-E.halfA + E.halfA)) = 1 := by
    rw [show t * (-E.halfA + E.halfA) = (0:A) by grind]; exact h.ph_zero
  have h4 : E.ph ((0:A) + 0) = 1 := by rw [show (0:A) + 0 = 0 by grind]; exact h.ph_zero
  have he : (letI := halfTurns E; expandGate "ry" [t] [0]) = some [.u t 0 0 0] := rfl
  simp only [oneQubit, List.foldl_cons, List.foldl_nil, he, uMatrix, envTrig, mul2, ypow, flat2, smul, h0, h3, List.map_cons, List.map_nil,
    List.getD_cons_zero, List.getD_cons_succ, Option.some.injEq, getD4_0, getD4_1, getD4_2, getD4_3]
  arr_eq

/-- `ZPowGate(t)` / `Rz(πt)` is emitted as `rz(pi*t)`, which `qelib1.inc` defines as `u1`: `diag(1, e^{iπt})`,
the documented `Z**t` (equal to `Rz` up to the global phase `e^{-iπt/2}`) -/
theorem C19_emit_rz (E : Env A R) (h : LawfulQ E) (t : A) :
    oneQubit E [("rz", [t])] = some (flat2 (zpow E t 0)) := by
  have h0 := h.ph_zero
  have h3 : E.ph (t * 0) = 1 := by rw [show t * 0 = (0:A) by grind]; exact h.ph_zero
  have h4 : E.ph (0 + t) = E.ph t := by rw [show (0:A) + t = t by grind]
  have hc : E.cosπ (0 * E.halfA) = 1 := by
    rw [show (0:A) * E.halfA = 0 by grind, h.cos_def, show -(0:A) = 0 by grind, h.ph_zero]
    have := h.half_def; grind
  have hs : E.sinπ (0 * E.halfA) = 0 := by
    rw [show (0:A) * E.halfA = 0 by grind, h.sin_def, show -(0:A) = 0 by grind, h.ph_zero]; grind
  have he : (letI := halfTurns E; expandGate "rz" [t] [0]) = some [.u 0 0 t 0] := rfl
  simp only [oneQubit, List.foldl_cons, List.foldl_nil, he, uMatrix, envTrig, mul2, zpow, flat2, smul, h0, h3, hc, hs, List.map_cons, List.map_nil,
    List.getD_cons_zero, List.getD_cons_succ, Option.some.injEq, getD4_0, getD4_1, getD4_2, getD4_3]
  arr_eq

/-- `PhasedXPowGate(exponent=t, phase_exponent=p)` is emitted as `u3(pi*-t, pi*(p+½), pi*(−p−½))` (and `QasmUGate` prints its
three angles the same way): the documented matrix with the global phase `e^{-iπt/2}` taken out -/
theorem C19_emit_phasedx (E : Env A R) (h : LawfulQ E) (t p : A) :
    oneQubit E [("u3", [-t, p + E.halfA, -p - E.halfA])] = some (flat2 (phasedx E t p (-E.halfA))) := by
  have hI := h.I_sq
  have h1 : E.ph (p + E.halfA) = E.ph p * E.I := by rw [h.ph_add, h.ph_half]
  have h2 : E.ph (-p - E.halfA) = -(E.ph (-p) * E.I) := by
    rw [show -p - E.halfA = -p + -(1 * E.halfA) by grind, h.ph_add, ph_neg_half h]; grind
  have h3 : E.ph (p + E.halfA + (-p - E.halfA)) = 1 := by
    rw [show p + E.halfA + (-p - E.halfA) = (0:A) by grind]; exact h.ph_zero
  have hc : E.cosπ (-t * E.halfA) = E.cosπ (t * E.halfA) := by
    rw [h.cos_def, h.cos_def, show -(-t * E.halfA) = t * E.halfA by grind, show -t * E.halfA = -(t * E.halfA) by grind]; grind
  have hs : E.sinπ (-t * E.halfA) = -E.sinπ (t * E.halfA) := by
    rw [h.sin_def, h.sin_def, show -(-t * E.halfA) = t * E.halfA by grind, show -t * E.halfA = -(t * E.halfA) by grind]; grind
  have h5 : E.ph (t * -E.halfA) * E.ph (t * E.halfA) = 1 := by
    rw [← h.ph_add, show t * -E.halfA + t * E.halfA = (0:A) by grind]; exact h.ph_zero
  have h6 : E.ph (t * E.halfA - p) = E.ph (t * E.halfA) * E.ph (-p) := by
    rw [← h.ph_add]; congr 1; grind
  have h7 : E.ph (t * E.halfA + p) = E.ph (t * E.halfA) * E.ph p := h.ph_add _ _
  have he : (letI := halfTurns E; expandGate "u3" [-t, p + E.halfA, -p - E.halfA] [0]) = some [.u (-t) (p + E.halfA) (-p - E.halfA) 0] := rfl
  simp only [oneQubit, List.foldl_cons, List.foldl_nil, he, uMatrix, envTrig, mul2, phasedx, flat2, smul, h1, h2, hc, hs, h6, h7, List.map_cons, List.map_nil,
    List.getD_cons_zero, List.getD_cons_succ, Option.some.injEq, getD4_0, getD4_1, getD4_2, getD4_3]
  arr_eq

/-- what the eighth-turn phase is: `e^{iπ/4} = (1 + i)/√2` (needed by the `H**t` emission only) -/
structure LawfulQ8 (E : Env A R) : Prop extends LawfulQ E where
  ph_quarter : E.ph (E.halfA * E.halfA) = E.isq2 * (1 + E.I)

/-- `HPowGate(t)` is emitted as `ry(pi*0.25); rx(pi*t); ry(pi*-0.25)`: the documented `H**t` with the global phase
`e^{-iπt/2}` taken out -/
theorem C19_emit_hpow (E : Env A R) (h : LawfulQ8 E) (t : A) :
    oneQubit E [("ry", [E.halfA * E.halfA]), ("rx", [t]), ("ry", [-(E.halfA * E.halfA)])]
      = some (flat2 (hpow E t (-E.halfA))) := by
  have hI := h.I_sq; have hh := h.half_def; have hq := h.isq2_sq
  have h1 := ph_half_one h.toLawfulQ; have h2 := ph_neg_half h.toLawfulQ
  have h0 := h.ph_zero
  have h3 : E.ph (t * (-E.halfA + E.halfA)) = 1 := by
    rw [show t * (-E.halfA + E.halfA) = (0:A) by grind]; exact h.ph_zero
  have h4 : E.ph (-E.halfA + E.halfA) = 1 := by
    rw [show -E.halfA + E.halfA = (0:A) by grind]; exact h.ph_zero
  have h5 : E.ph ((0:A) + 0) = 1 := by rw [show (0:A) + 0 = 0 by grind]; exact h.ph_zero
  -- the sixteenth-turn phase `w` and its inverse
  have hw : E.ph (E.halfA * E.halfA * E.halfA) * E.ph (E.halfA * E.halfA * E.halfA) = E.isq2 * (1 + E.I) := by
    rw [← h.ph_add, ← h.ph_quarter]; congr 1; have := h.halfA_def; grind
  have hwi : E.ph (E.halfA * E.halfA * E.halfA) * E.ph (-(E.halfA * E.halfA * E.halfA)) = 1 := ph_neg_mul h.toLawful _
  have h4' : E.ph (-(1 * E.halfA) + 1 * E.halfA) = 1 := by
    rw [show -(1 * E.halfA) + 1 * E.halfA = (0:A) by grind]; exact h.ph_zero
  have hwb : E.ph (-(E.halfA * E.halfA * E.halfA)) * E.ph (-(E.halfA * E.halfA * E.halfA)) = E.isq2 * (1 - E.I) := by
    grind
  have hc1 : E.cosπ (E.halfA * E.halfA * E.halfA)
      = (E.ph (E.halfA * E.halfA * E.halfA) + E.ph (-(E.halfA * E.halfA * E.halfA))) * E.half := h.cos_def _
  have hs1 : E.sinπ (E.halfA * E.halfA * E.halfA)
      = (E.ph (-(E.halfA * E.halfA * E.halfA)) - E.ph (E.halfA * E.halfA * E.halfA)) * E.half * E.I := h.sin_def _
  have hc2 : E.cosπ (-(E.halfA * E.halfA) * E.halfA)
      = (E.ph (E.halfA * E.halfA * E.halfA) + E.ph (-(E.halfA * E.halfA * E.halfA))) * E.half := by
    rw [h.cos_def, show -(-(E.halfA * E.halfA) * E.halfA) = E.halfA * E.halfA * E.halfA by grind,
      show -(E.halfA * E.halfA) * E.halfA = -(E.halfA * E.halfA * E.halfA) by grind]; grind
  have hs2 : E.sinπ (-(E.halfA * E.halfA) * E.halfA)
      = (E.ph (E.halfA * E.halfA * E.halfA) - E.ph (-(E.halfA * E.halfA * E.halfA))) * E.half * E.I := by
    rw [h.sin_def, show -(-(E.halfA * E.halfA) * E.halfA) = E.halfA * E.halfA * E.halfA by grind,
      show -(E.halfA * E.halfA) * E.halfA = -(E.halfA * E.halfA * E.halfA) by grind]
  have he1 : (letI := halfTurns E; expandGate "ry" [E.halfA * E.halfA] [0]) = some [.u (E.halfA * E.halfA) 0 0 0] := rfl
  have he2 : (letI := halfTurns E; expandGate "rx" [t] [0]) = some [.u t (-(1 * E.halfA)) (1 * E.halfA) 0] := rfl
  have he3 : (letI := halfTurns E; expandGate "ry" [-(E.halfA * E.halfA)] [0]) = some [.u (-(E.halfA * E.halfA)) 0 0 0] := rfl
  simp only [oneQubit, List.foldl_cons, List.foldl_nil, he1, he2, he3, uMatrix, envTrig, mul2, hpow, flat2, smul, h0, h1, h2, h3,
    List.map_cons, List.map_nil, List.getD_cons_zero, List.getD_cons_succ, Option.some.injEq, getD4_0, getD4_1, getD4_2, getD4_3,
    hc1, hs1, hc2, hs2]
  generalize E.ph (E.halfA * E.halfA * E.halfA) = w at *
  generalize E.ph (-(E.halfA * E.halfA * E.halfA)) = wb at *
  generalize E.cosπ (t * E.halfA) = c at *
  generalize E.sinπ (t * E.halfA) = sn at *
  clear he1 he2 he3 hc1 hs1 hc2 hs2 h1 h2 h3 h4'
  arr_eq

/-- the `u2` spellings `PhasedXPowGate` uses at exponent `+½` … -/
theorem C19_emit_phasedx_half (E : Env A R) (h : LawfulQ E) (p : A) :
    oneQubit E [("u2", [p - E.halfA, -p + E.halfA])] = some (flat2 (phasedx E E.halfA p (-E.halfA))) := by
  have hI := h.I_sq
  have h1 : E.ph (p - E.halfA) = -(E.ph p * E.I) := by
    rw [show p - E.halfA = p + -(1 * E.halfA) by grind, h.ph_add, ph_neg_half h]; grind
  have h2 : E.ph (-p + E.halfA) = E.ph (-p) * E.I := by rw [h.ph_add, h.ph_half]
  have h3 : E.ph (p - E.halfA + (-p + E.halfA)) = 1 := by
    rw [show p - E.halfA + (-p + E.halfA) = (0:A) by grind]; exact h.ph_zero
  have h5 : E.ph (E.halfA * -E.halfA) * E.ph (E.halfA * E.halfA) = 1 := by
    rw [← h.ph_add, show E.halfA * -E.halfA + E.halfA * E.halfA = (0:A) by grind]; exact h.ph_zero
  have h6 : E.ph (E.halfA * E.halfA - p) = E.ph (E.halfA * E.halfA) * E.ph (-p) := by
    rw [← h.ph_add]; congr 1; grind
  have h7 : E.ph (E.halfA * E.halfA + p) = E.ph (E.halfA * E.halfA) * E.ph p := h.ph_add _ _
  have h8 : (1 : A) * E.halfA * E.halfA = E.halfA * E.halfA := by grind
  have he : (letI := halfTurns E; expandGate "u2" [p - E.halfA, -p + E.halfA] [0])
      = some [.u (1 * E.halfA) (p - E.halfA) (-p + E.halfA) 0] := rfl
  simp only [oneQubit, List.foldl_cons, List.foldl_nil, he, uMatrix, envTrig, mul2, phasedx, flat2, smul, h1, h2, h6, h7, h8, List.map_cons,
    List.map_nil, List.getD_cons_zero, List.getD_cons_succ, Option.some.injEq, getD4_0, getD4_1, getD4_2, getD4_3]
  arr_eq

/-- … and at exponent `−½` -/
theorem C19_emit_phasedx_neg_half (E : Env A R) (h : LawfulQ E) (p : A) :
    oneQubit E [("u2", [p + E.halfA, -p - E.halfA])] = some (flat2 (phasedx E (-E.halfA) p (-E.halfA))) := by
  have hI := h.I_sq
  have h1 : E.ph (p + E.halfA) = E.ph p * E.I := by rw [h.ph_add, h.ph_half]
  have h2 : E.ph (-p - E.halfA) = -(E.ph (-p) * E.I) := by
    rw [show -p - E.halfA = -p + -(1 * E.halfA) by grind, h.ph_add, ph_neg_half h]; grind
  have h3 : E.ph (p + E.halfA + (-p - E.halfA)) = 1 := by
    rw [show p + E.halfA + (-p - E.halfA) = (0:A) by grind]; exact h.ph_zero
  have h5 : E.ph (-E.halfA * -E.halfA) * E.ph (-E.halfA * E.halfA) = 1 := by
    rw [← h.ph_add, show -E.halfA * -E.halfA + -E.halfA * E.halfA = (0:A) by grind]; exact h.ph_zero
  have h6 : E.ph (-E.halfA * E.halfA - p) = E.ph (-E.halfA * E.halfA) * E.ph (-p) := by
    rw [← h.ph_add]; congr 1; grind
  have h7 : E.ph (-E.halfA * E.halfA + p) = E.ph (-E.halfA * E.halfA) * E.ph p := h.ph_add _ _
  have h8 : (1 : A) * E.halfA * E.halfA = E.halfA * E.halfA := by grind
  have hc : E.cosπ (-E.halfA * E.halfA) = E.cosπ (E.halfA * E.halfA) := by
    rw [h.cos_def, h.cos_def, show -(-E.halfA * E.halfA) = E.halfA * E.halfA by grind, show -E.halfA * E.halfA = -(E.halfA * E.halfA) by grind]; grind
  have hs : E.sinπ (-E.halfA * E.halfA) = -E.sinπ (E.halfA * E.halfA) := by
    rw [h.sin_def, h.sin_def, show -(-E.halfA * E.halfA) = E.halfA * E.halfA by grind, show -E.halfA * E.halfA = -(E.halfA * E.halfA) by grind]; grind
  have he : (letI := halfTurns E; expandGate "u2" [p + E.halfA, -p - E.halfA] [0])
      = some [.u (1 * E.halfA) (p + E.halfA) (-p - E.halfA) 0] := rfl
  simp only [oneQubit, List.foldl_cons, List.foldl_nil, he, uMatrix, envTrig, mul2, phasedx, flat2, smul, h1, h2, h6, h7, h8, hc, hs, List.map_cons,
    List.map_nil, List.getD_cons_zero, List.getD_cons_succ, Option.some.injEq, getD4_0, getD4_1, getD4_2, getD4_3]
  arr_eq

def scale2 (c : R) (a : Array R) : Array R := #[c * a.getD 0 0, c * a.getD 1 0, c * a.getD 2 0, c * a.getD 3 0]

/-- `QasmUGate(θ, φ, λ)`: the decomposition Cirq computes its unitary from — `Rz(πλ)`, then `Ry(πθ)`, then `Rz(πφ)`, times the
global phase `e^{iπ(φ+λ)/2}` — is the `U(θ,φ,λ)` of the OpenQASM specification, so the `u3(...)` line it prints means the
same operator with the same global phase -/
theorem C19_qasm_u_gate (E : Env A R) (h : LawfulQ E) (θ φ lam : A) :
    letI := halfTurns E
    scale2 (E.ph ((φ + lam) * E.halfA))
      (mul2 (flat2 (zpow E φ (-E.halfA))) (mul2 (flat2 (ypow E θ (-E.halfA))) (flat2 (zpow E lam (-E.halfA)))))
      = uMatrix (envTrig E) θ φ lam := by
  have h3 : E.ph (θ * (-E.halfA + E.halfA)) = 1 := by
    rw [show θ * (-E.halfA + E.halfA) = (0:A) by grind]; exact h.ph_zero
  have h4 : E.ph ((φ + lam) * E.halfA) = E.ph (φ * E.halfA) * E.ph (lam * E.halfA) := by
    rw [← h.ph_add]; congr 1; grind
  have h5 : E.ph (φ * -E.halfA) * E.ph (φ * E.halfA) = 1 := by
    rw [← h.ph_add, show φ * -E.halfA + φ * E.halfA = (0:A) by grind]; exact h.ph_zero
  have h6 : E.ph (lam * -E.halfA) * E.ph (lam * E.halfA) = 1 := by
    rw [← h.ph_add, show lam * -E.halfA + lam * E.halfA = (0:A) by grind]; exact h.ph_zero
  have h7 := ph_half_sq h.toLawful φ
  have h8 := ph_half_sq h.toLawful lam
  have h9 : E.ph (φ + lam) = E.ph φ * E.ph lam := h.ph_add _ _
  simp only [scale2, uMatrix, envTrig, mul2, zpow, ypow, flat2, smul, h3, h4, List.map_cons, List.map_nil,
    List.getD_cons_zero, List.getD_cons_succ, getD4_0, getD4_1, getD4_2, getD4_3]
  arr_eq

end CirqVerif.Qasm
