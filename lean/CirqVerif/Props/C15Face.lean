import CirqVerif.Props.C15
/-!
# C15 — the x = π/4 face of the Weyl chamber

On the face `x = π/4` the interactions `(x, y, z)` and `(π/2 − x, y, −z)` are the same up to local gates; the canonical
form picks `z ≥ 0` there.  One unit below the face nothing is identified any more, so the canonical coefficients jump:
this is the place where `_fix_single_qubit_gates_around_kak_interaction` (four-FSim synthesis) used to pair a target and a
synthesized interaction that had been given different representatives.  The repair re-expresses both with the *flip*
below; these theorems say that the flip is a symmetry of the code, where it lands, and that the two representatives it
relates are as close as the input is to the face.
-/
namespace CirqVerif.C15

/-- `(x, y, z) ↦ (π/2 − x, y, −z)`: `shift(0, −1)` followed by `negate(0, 2)` -/
def flip (q : Int) (v : V3) : V3 := { x := 2 * q - v.x, y := v.y, z := -v.z }

/-- the flip is a composition of the symmetry moves of the code, for every vector -/
theorem C15_flip_move (q : Int) (v : V3) : Move q v (flip q v) := by
  refine Move.shiftX (-1) _ _ (Move.negXZ _ _ ?_)
  have : -(v.x + 2 * q * -1) = 2 * q - v.x := by omega
  simp only [this, flip]
  exact Move.refl _

theorem C15_flip_involutive (q : Int) (v : V3) : flip q (flip q v) = v := by
  obtain ⟨x, y, z⟩ := v
  show V3.mk (2 * q - (2 * q - x)) y (- -z) = V3.mk x y z
  rw [Int.neg_neg]
  congr 1
  omega

/-- it keeps the distance to the face and reverses the sign of z -/
theorem C15_flip_distance (q : Int) (v : V3) : (flip q v).x - q = q - v.x ∧ (flip q v).y = v.y ∧ (flip q v).z = -v.z := by
  refine ⟨?_, rfl, rfl⟩
  show 2 * q - v.x - q = q - v.x
  omega

/-- exactly on the face the canonical form is the flip of a vector with negative z … -/
theorem C15_face_identifies (q : Int) (hq : 0 < q) (y z : Int) (hz : z < 0) (hzy : -z ≤ y) (hyq : y ≤ q) :
    canonicalize q { x := q, y := y, z := z } = flip q { x := q, y := y, z := z } := by
  have hcan : Canonical q { x := q, y := y, z := -z } := by
    refine ⟨?_, hyq, Int.le_refl _, fun _ => ?_⟩
    · show absI (-z) ≤ y
      simp only [absI]; split <;> omega
    · show 0 ≤ -z
      omega
  -- both (q, y, z) and (q, y, −z) are related by the flip, and (q, y, −z) is canonical
  have hflip : flip q { x := q, y := y, z := z } = { x := q, y := y, z := -z } := by
    show V3.mk (2 * q - q) y (-z) = V3.mk q y (-z)
    congr 1
    omega
  rw [hflip]
  -- compute the routine on (q, y, z): nothing moves until the boundary rule fires
  have hy0 : 0 ≤ y := by omega
  have ax : absI q = q := by simp only [absI]; split <;> omega
  have ay : absI y = y := by simp only [absI]; split <;> omega
  have az : absI z = -z := by simp only [absI]; split <;> omega
  have hzl : -q < z ∨ z = -q := by omega
  rcases hzl with hzl | hzl
  · have s1 : shift3 q { x := q, y := y, z := z } = { x := q, y := y, z := z } := by
      simp only [shift3, cshift_id q q (by omega) (by omega), cshift_id q y (by omega) hyq, cshift_id q z hzl (by omega)]
    have c1 : cswap q y = (q, y) := by unfold cswap; rw [ax, ay]; simp; omega
    have c2 : cswap y z = (y, z) := by unfold cswap; rw [ay, az]; simp; omega
    have s2 : sort3 { x := q, y := y, z := z } = { x := q, y := y, z := z } := by simp only [sort3, c1, c2]
    unfold canonicalize
    rw [s1, s2]
    have n1 : negXZIf { x := q, y := y, z := z } = { x := q, y := y, z := z } := by simp [negXZIf]; omega
    have n2 : negYZIf { x := q, y := y, z := z } = { x := q, y := y, z := z } := by simp [negYZIf]; omega
    rw [n1, n2]
    have s3 : shiftZ q { x := q, y := y, z := z } = { x := q, y := y, z := z } := by
      simp only [shiftZ, cshift_id q z hzl (by omega)]
    rw [s3]
    have hb : fixBoundary q { x := q, y := y, z := z } = { x := -(q - 2 * q), y := y, z := -z } := by
      simp [fixBoundary, hz]
    rw [hb]
    congr 1
    omega
  · -- z = −π/4 (the SWAP corner written with a negative z): the first shift already brings it to +π/4
    subst hzl
    have hyq' : y = q := by omega
    subst hyq'
    have hfix := C15_canonical_fixed y hq { x := y, y := y, z := y } (by
      refine ⟨?_, Int.le_refl _, Int.le_refl _, fun _ => by show 0 ≤ y; omega⟩
      show absI y ≤ y
      simp only [absI]; split <;> omega)
    have s1 : shift3 y { x := y, y := y, z := -y } = { x := y, y := y, z := y } := by
      simp only [shift3, cshift_id y y (by omega) (by omega), cshift_neg_q y hq]
    have s0 : shift3 y { x := y, y := y, z := y } = { x := y, y := y, z := y } := by
      simp only [shift3, cshift_id y y (by omega) (by omega)]
    unfold canonicalize at hfix ⊢
    rw [s0] at hfix
    rw [s1, hfix]
    show V3.mk y y y = V3.mk y y (- -y)
    rw [Int.neg_neg]

/-- … whereas one unit below the face the same vector is its own canonical form: the canonical coefficients of two
interactions that differ by one unit in x differ by (almost) π/2 in z. -/
theorem C15_below_face_fixed (q : Int) (hq : 1 < q) (y z : Int) (hz : z < 0) (hzy : -z ≤ y) (hyq : y ≤ q - 1) :
    canonicalize q { x := q - 1, y := y, z := z } = { x := q - 1, y := y, z := z } := by
  apply C15_canonical_fixed q (by omega)
  refine ⟨?_, by show y ≤ q - 1; exact hyq, by show q - 1 ≤ q; omega, fun h => ?_⟩
  · show absI z ≤ y
    simp only [absI]; split <;> omega
  · have : q - 1 = q := h
    omega

/-- The repair: giving both vectors the representative with `z ≥ 0` (flipping the one below the face) brings them back
within one unit of each other in every coordinate. -/
theorem C15_flip_repairs_face_jump (q : Int) (hq : 1 < q) (y z : Int) (hz : z < 0) (hzy : -z ≤ y) (hyq : y ≤ q - 1) :
    let onFace := canonicalize q { x := q, y := y, z := z }
    let below := flip q (canonicalize q { x := q - 1, y := y, z := z })
    below.x - onFace.x = 1 ∧ below.y = onFace.y ∧ below.z = onFace.z := by
  have h1 := C15_face_identifies q (by omega) y z hz hzy (by omega)
  have h2 := C15_below_face_fixed q hq y z hz hzy hyq
  simp only [h1, h2]
  refine ⟨?_, rfl, rfl⟩
  show 2 * q - (q - 1) - (2 * q - q) = 1
  omega

example : canonicalize 8 { x := 8, y := 5, z := -3 } = { x := 8, y := 5, z := 3 } := by decide
example : canonicalize 8 { x := 7, y := 5, z := -3 } = { x := 7, y := 5, z := -3 } := by decide
example : flip 8 { x := 7, y := 5, z := -3 } = { x := 9, y := 5, z := 3 } := by decide

end CirqVerif.C15
