/-!
# C09 — `InsertionNoiseModel`: the noise inserted for an operation belongs to a most specific matching key

Model of the key choice in `InsertionNoiseModel.noisy_moment` (cirq/devices/insertion_noise_model.py) over abstract keys with a
"matches the operation" predicate and a "is a proper subtype of" relation, and the theorem that the documented rule ("the most specific
type will match; if neither is more specific the first one will") yields a minimal matching key for every list of keys whenever the
relation is a strict partial order.  The C09 harness evaluates the choice on sets and checks minimality on the implementation's output.
-/
namespace CirqVerif.C09

/-- `InsertionNoiseModel.noisy_moment`, choice of the key for one operation: walk the keys in order, keep the first matching one and
replace it whenever a later matching key is a proper subtype of it -/
def pickStep {α : Type} (matches_ : α → Bool) (sub : α → α → Bool) (cur : Option α) (k : α) : Option α :=
  if matches_ k then (match cur with
    | none => some k
    | some m => if sub k m then some k else some m) else cur

def pickKey {α : Type} (matches_ : α → Bool) (sub : α → α → Bool) (keys : List α) : Option α :=
  keys.foldl (pickStep matches_ sub) none

/-- the generalised statement for an arbitrary starting value -/
theorem pickKey_aux {α : Type} (matches_ : α → Bool) (sub : α → α → Bool)
    (htrans : ∀ a b c, sub a b = true → sub b c = true → sub a c = true) (hirr : ∀ a, sub a a = false)
    (keys seen : List α) (cur : Option α)
    (hcur : ∀ m, cur = some m → matches_ m = true ∧ ∀ k ∈ seen, matches_ k = true → sub k m = false)
    (hnone : cur = none → ∀ k ∈ seen, matches_ k = false) :
    let r := keys.foldl (pickStep matches_ sub) cur
    (∀ m, r = some m → matches_ m = true ∧ ∀ k ∈ seen ++ keys, matches_ k = true → sub k m = false)
    ∧ (r = none → ∀ k ∈ seen ++ keys, matches_ k = false) := by
  induction keys generalizing seen cur with
  | nil => intro r; simpa using ⟨hcur, hnone⟩
  | cons x xs ih =>
    intro r
    have key : ∀ cur', (∀ m, cur' = some m → matches_ m = true ∧ ∀ k ∈ seen ++ [x], matches_ k = true → sub k m = false) →
        (cur' = none → ∀ k ∈ seen ++ [x], matches_ k = false) →
        cur' = pickStep matches_ sub cur x →
        (∀ m, r = some m → matches_ m = true ∧ ∀ k ∈ seen ++ x :: xs, matches_ k = true → sub k m = false)
        ∧ (r = none → ∀ k ∈ seen ++ x :: xs, matches_ k = false) := by
      intro cur' h1 h2 he
      have := ih (seen ++ [x]) cur' h1 h2
      simp only [List.append_assoc, List.singleton_append] at this
      subst he
      simpa [r, List.foldl_cons] using this
    by_cases hx : matches_ x = true
    · cases hc : cur with
      | none =>
        refine key (some x) ?_ ?_ (by simp [pickStep, hx, hc])
        · intro m hm
          simp only [Option.some.injEq] at hm; subst hm
          refine ⟨hx, ?_⟩
          intro k hk hmk
          rcases List.mem_append.mp hk with hs | hs
          · have := hnone hc k hs; rw [this] at hmk; cases hmk
          · simp only [List.mem_singleton] at hs; subst hs; exact hirr _
        · intro h; cases h
      | some m0 =>
        obtain ⟨hm0, hmin⟩ := hcur m0 hc
        by_cases hs : sub x m0 = true
        · refine key (some x) ?_ ?_ (by simp [pickStep, hx, hc, hs])
          · intro m hm
            simp only [Option.some.injEq] at hm; subst hm
            refine ⟨hx, ?_⟩
            intro k hk hmk
            rcases List.mem_append.mp hk with hk | hk
            · cases hkm : sub k x with
              | false => rfl
              | true => have := htrans k x m0 hkm hs; rw [hmin k hk hmk] at this; cases this
            · simp only [List.mem_singleton] at hk; subst hk; exact hirr _
          · intro h; cases h
        · have hs' : sub x m0 = false := by simpa using hs
          refine key (some m0) ?_ ?_ (by simp [pickStep, hx, hc, hs'])
          · intro m hm
            simp only [Option.some.injEq] at hm; subst hm
            refine ⟨hm0, ?_⟩
            intro k hk hmk
            rcases List.mem_append.mp hk with hk | hk
            · exact hmin k hk hmk
            · simp only [List.mem_singleton] at hk; subst hk; exact hs'
          · intro h; cases h
    · have hx' : matches_ x = false := by simpa using hx
      refine key cur ?_ ?_ (by simp [pickStep, hx'])
      · intro m hm
        obtain ⟨h1, h2⟩ := hcur m hm
        refine ⟨h1, ?_⟩
        intro k hk hmk
        rcases List.mem_append.mp hk with hk | hk
        · exact h2 k hk hmk
        · simp only [List.mem_singleton] at hk; subst hk; rw [hx'] at hmk; cases hmk
      · intro hn k hk
        rcases List.mem_append.mp hk with hk | hk
        · exact hnone hn k hk
        · simp only [List.mem_singleton] at hk; subst hk; exact hx'

/-- **The inserted noise belongs to a most specific matching key**: when "is a proper subtype of" is a strict partial order, the key chosen
for an operation matches it and no matching key is a proper subtype of it; no key is chosen only when none matches -/
theorem C09_insertion_key_minimal {α : Type} (matches_ : α → Bool) (sub : α → α → Bool)
    (htrans : ∀ a b c, sub a b = true → sub b c = true → sub a c = true) (hirr : ∀ a, sub a a = false) (keys : List α) :
    (∀ m, pickKey matches_ sub keys = some m → matches_ m = true ∧ ∀ k ∈ keys, matches_ k = true → sub k m = false)
    ∧ (pickKey matches_ sub keys = none → ∀ k ∈ keys, matches_ k = false) := by
  have := pickKey_aux matches_ sub htrans hirr keys [] none (by intro m h; cases h) (by intro _ k hk; cases hk)
  simpa [pickKey] using this

end CirqVerif.C09
