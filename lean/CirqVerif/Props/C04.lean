import CirqVerif.Proofs.Controlled
import CirqVerif.Proofs.Sim
/-!
# C04 — property theorems (descriptions of one operation agree)
-/
namespace CirqVerif
open CirqVerif.C08

/-- **`controlled_slice`**: `ControlledOperation._apply_unitary_` applies the sub-operation on the slices
selected by the (expanded) control values and leaves the others untouched; this equals the action of
the controlled block matrix — for any control predicate, axes, qudit shapes and states. -/
theorem C04_controlled_slice {R : Type} [Lean.Grind.CommRing R] (sat : List Nat → Bool) (U : Mat R)
    (shape caxes taxes : List Nat) (ψ : State R) (idx : Idx) (hv : ValidIdx shape idx)
    (hc : ∀ a ∈ caxes, a < idx.length) (ht : ∀ a ∈ taxes, a < idx.length) :
    (if sat (getAxes idx caxes) then applyOp U (taxes.map (fun a => shape.getD a 1)) taxes ψ idx else ψ idx)
      = applyOp (controlledMat sat caxes.length U)
          ((caxes ++ taxes).map (fun a => shape.getD a 1)) (caxes ++ taxes) ψ idx :=
  (controlled_apply sat U shape caxes taxes ψ idx hv hc ht).symm


/-! ### in-place slicing kernels (`_apply_unitary_` of X, Y, Z, H) equal the matrix action

`args.subspace_index(0/1)` selects the two slices of the target axis; a kernel computes the new pair of
slices from the old pair.  `sliceKernel2 f a ψ` is that computation on axis `a`. -/

section kernels
variable {R : Type} [Lean.Grind.CommRing R]

def sliceKernel2 (f : R → R → R × R) (a : Nat) (ψ : State R) : State R := fun idx =>
  let r := f (ψ (idx.set a 0)) (ψ (idx.set a 1))
  if idx.getD a 0 = 0 then r.1 else r.2

def mat2 (m00 m01 m10 m11 : R) : Mat R := fun r c =>
  match r, c with
  | [0], [0] => m00 | [0], [1] => m01 | [1], [0] => m10 | [1], [1] => m11 | _, _ => 0

/-- a two-slice kernel that is linear with coefficients `m` is the action of the matrix `m` on that axis
(any register, any position of the axis, any spectator axes) -/
theorem sliceKernel2_eq (m00 m01 m10 m11 : R) (f : R → R → R × R)
    (hf : ∀ z o, f z o = (m00 * z + m01 * o, m10 * z + m11 * o))
    (a : Nat) (ψ : State R) (idx : Idx) (hd : idx.getD a 0 < 2) :
    sliceKernel2 f a ψ idx = applyOp (mat2 m00 m01 m10 m11) [2] [a] ψ idx := by
  unfold sliceKernel2 applyOp
  simp only [allIdx, List.range_succ, List.range_zero, List.nil_append, List.flatMap_cons, List.flatMap_nil,
    List.map_cons, List.map_nil, List.cons_append, List.append_nil, sumL_cons, sumL_nil, getAxes, setAxes, hf]
  have : idx.getD a 0 = 0 ∨ idx.getD a 0 = 1 := by omega
  rcases this with h | h <;> simp [h, mat2] <;> grind

/-- `XPowGate._apply_unitary_` (exponent 1): `buffer[zero] = target[one]; buffer[one] = target[zero]; buffer *= p` -/
def xKernel (p : R) : R → R → R × R := fun z o => (p * o, p * z)

theorem C04_kernel_X (p : R) (a : Nat) (ψ : State R) (idx : Idx) (hd : idx.getD a 0 < 2) :
    sliceKernel2 (xKernel p) a ψ idx = applyOp (mat2 0 p p 0) [2] [a] ψ idx :=
  sliceKernel2_eq 0 p p 0 _ (by intro z o; simp only [xKernel, Prod.mk.injEq]; constructor <;> grind) a ψ idx hd

/-- `YPowGate._apply_unitary_`: `buffer[zero] = -1j * target[one]; buffer[one] = 1j * target[zero]; buffer *= p` -/
def yKernel (i p : R) : R → R → R × R := fun z o => (p * (-(i * o)), p * (i * z))

theorem C04_kernel_Y (i p : R) (a : Nat) (ψ : State R) (idx : Idx) (hd : idx.getD a 0 < 2) :
    sliceKernel2 (yKernel i p) a ψ idx = applyOp (mat2 0 (-(p * i)) (p * i) 0) [2] [a] ψ idx :=
  sliceKernel2_eq 0 (-(p * i)) (p * i) 0 _ (by intro z o; simp only [yKernel, Prod.mk.injEq]; constructor <;> grind) a ψ idx hd

/-- `ZPowGate._apply_unitary_` on a qubit: `target[one] *= c; target *= p` -/
def zKernel (c p : R) : R → R → R × R := fun z o => (p * z, p * (c * o))

theorem C04_kernel_Z (c p : R) (a : Nat) (ψ : State R) (idx : Idx) (hd : idx.getD a 0 < 2) :
    sliceKernel2 (zKernel c p) a ψ idx = applyOp (mat2 p 0 0 (p * c)) [2] [a] ψ idx :=
  sliceKernel2_eq p 0 0 (p * c) _ (by intro z o; simp only [zKernel, Prod.mk.injEq]; constructor <;> grind) a ψ idx hd

/-- `HPowGate._apply_unitary_` (exponent 1), the sequence of in-place updates
`one -= zero; one *= -0.5; zero -= one; target *= sqrt(2) * p` -/
def hKernel (half sq2 p : R) : R → R → R × R := fun z o =>
  let o1 := o - z
  let o2 := o1 * (-half)
  let z1 := z - o2
  (z1 * (sq2 * p), o2 * (sq2 * p))

/-- … equals the Hadamard matrix `p/√2 · [[1, 1], [1, -1]]` (with `1/√2 = √2 · ½`) -/
theorem C04_kernel_H (half sq2 p : R) (hh : half + half = 1) (a : Nat) (ψ : State R) (idx : Idx)
    (hd : idx.getD a 0 < 2) :
    sliceKernel2 (hKernel half sq2 p) a ψ idx
      = applyOp (mat2 (p * (sq2 * half)) (p * (sq2 * half)) (p * (sq2 * half)) (-(p * (sq2 * half)))) [2] [a] ψ idx :=
  sliceKernel2_eq _ _ _ _ _ (by intro z o; simp only [hKernel, Prod.mk.injEq]; constructor <;> grind) a ψ idx hd

end kernels

end CirqVerif
