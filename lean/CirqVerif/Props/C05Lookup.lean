import CirqVerif.Model.C05
/-!
# C05 — the moment look-ups (`next_moment_operating_on`, `prev_moment_operating_on`, with and without `max_distance`)

What the model's look-ups return, for every circuit, qubit list and window: the first (last) moment inside the window that
touches one of the qubits, and nothing when there is none.  The executable definitions are compared with the implementation
on every history of the C05 check (query calls `q_next` / `q_prev`).
-/
namespace CirqVerif.C05

/-- `next_moment_operating_on` returns the first moment at or after `start` that touches the qubits … -/
theorem C05_next_moment_spec (c : Circuit) (qs : List Nat) (start m : Nat) :
    nextMomentOperatingOn c qs start = some m ↔
      ∃ h : m < c.length, start ≤ m ∧ operatesOn c[m] qs = true ∧
        ∀ j (hj : j < c.length), start ≤ j → j < m → operatesOn c[j] qs = false := by
  unfold nextMomentOperatingOn
  constructor
  · intro h
    cases hf : (c.drop start).findIdx? (fun mo => operatesOn mo qs) with
    | none => simp [hf] at h
    | some i =>
      simp only [hf, Option.some.injEq] at h
      subst h
      obtain ⟨hi, hp, hmin⟩ := List.findIdx?_eq_some_iff_getElem.mp hf
      have hlen : start + i < c.length := by simp [List.length_drop] at hi; omega
      refine ⟨hlen, by omega, ?_, ?_⟩
      · simpa [List.getElem_drop] using hp
      · intro j hj hsj hjm
        have := hmin (j - start) (by omega)
        simp only [List.getElem_drop] at this
        have e : start + (j - start) = j := by omega
        simp only [e] at this
        simpa using this
  · rintro ⟨hlen, hsm, hp, hmin⟩
    have hi : m - start < (c.drop start).length := by simp [List.length_drop]; omega
    have hf : (c.drop start).findIdx? (fun mo => operatesOn mo qs) = some (m - start) := by
      apply List.findIdx?_eq_some_iff_getElem.mpr
      refine ⟨hi, ?_, ?_⟩
      · simp only [List.getElem_drop]
        have e : start + (m - start) = m := by omega
        simp only [e]; exact hp
      · intro j hj
        simp only [List.getElem_drop]
        have := hmin (start + j) (by omega) (by omega) (by omega)
        simp [this]
    simp only [hf]
    congr 1
    omega

/-- … and nothing exactly when no moment from `start` on touches them. -/
theorem C05_next_moment_none (c : Circuit) (qs : List Nat) (start : Nat) :
    nextMomentOperatingOn c qs start = none ↔
      ∀ j (hj : j < c.length), start ≤ j → operatesOn c[j] qs = false := by
  unfold nextMomentOperatingOn
  constructor
  · intro h j hj hsj
    cases hf : (c.drop start).findIdx? (fun mo => operatesOn mo qs) with
    | some i => simp [hf] at h
    | none =>
      have := List.findIdx?_eq_none_iff.mp hf c[j] (by
        rw [List.mem_iff_getElem]
        refine ⟨j - start, by simp [List.length_drop]; omega, ?_⟩
        simp only [List.getElem_drop]
        congr 1; omega)
      exact this
  · intro h
    have hf : (c.drop start).findIdx? (fun mo => operatesOn mo qs) = none := by
      apply List.findIdx?_eq_none_iff.mpr
      intro x hx
      obtain ⟨i, hi, rfl⟩ := List.mem_iff_getElem.mp hx
      simp only [List.getElem_drop]
      simp [List.length_drop] at hi
      exact h (start + i) (by omega) (by omega)
    simp [hf]

/-- with a window: the answer of the unbounded look-up when it lies within `max_distance` moments, nothing otherwise -/
theorem C05_next_moment_within (c : Circuit) (qs : List Nat) (start d m : Nat) :
    nextMomentWithin c qs start d = some m ↔ nextMomentOperatingOn c qs start = some m ∧ m < start + d := by
  unfold nextMomentWithin
  cases h : nextMomentOperatingOn c qs start with
  | none => simp
  | some k =>
    by_cases hk : k < start + d
    · simp only [hk, if_true, Option.some.injEq]
      constructor
      · rintro rfl; exact ⟨rfl, hk⟩
      · rintro ⟨rfl, _⟩; rfl
    · simp only [hk, if_false]
      constructor
      · intro hh; cases hh
      · rintro ⟨hh, hm⟩
        simp only [Option.some.injEq] at hh
        subst hh; exact absurd hm hk

theorem C05_prev_moment_within (c : Circuit) (qs : List Nat) (e d m : Nat) :
    prevMomentWithin c qs e d = some m ↔ prevMomentOperatingOn c qs e = some m ∧ e ≤ m + d := by
  unfold prevMomentWithin
  cases h : prevMomentOperatingOn c qs e with
  | none => simp
  | some k =>
    by_cases hk : e ≤ k + d
    · simp only [hk, if_true, Option.some.injEq]
      constructor
      · rintro rfl; exact ⟨rfl, hk⟩
      · rintro ⟨rfl, _⟩; rfl
    · simp only [hk, if_false]
      constructor
      · intro hh; cases hh
      · rintro ⟨hh, hm⟩
        simp only [Option.some.injEq] at hh
        subst hh; exact absurd hm hk

/-- `prev_moment_operating_on` returns the last moment before `e` (and inside the circuit) that touches the qubits -/
theorem C05_prev_moment_spec (c : Circuit) (qs : List Nat) (e m : Nat) :
    prevMomentOperatingOn c qs e = some m →
      ∃ h : m < c.length, m < e ∧ operatesOn c[m] qs = true ∧
        ∀ j (hj : j < c.length), m < j → j < e → operatesOn c[j] qs = false := by
  unfold prevMomentOperatingOn
  intro h
  simp only at h
  cases hf : ((c.take (min e c.length)).reverse).findIdx? (fun mo => operatesOn mo qs) with
  | none => simp [hf] at h
  | some i =>
    simp only [hf, Option.some.injEq] at h
    obtain ⟨hi, hp, hmin⟩ := List.findIdx?_eq_some_iff_getElem.mp hf
    have hlt : i < min e c.length := by simpa [List.length_take] using hi
    have hm : m = min e c.length - 1 - i := h.symm
    have hmlen : m < c.length := by omega
    refine ⟨hmlen, by omega, ?_, ?_⟩
    · have := hp
      simp only [List.getElem_reverse, List.getElem_take, List.length_take] at this
      have e1 : min (min e c.length) c.length - 1 - i = m := by omega
      simp only [e1] at this
      exact this
    · intro j hj hmj hje
      have hji : min e c.length - 1 - j < i := by omega
      have := hmin (min e c.length - 1 - j) hji
      simp only [List.getElem_reverse, List.getElem_take, List.length_take] at this
      have e2 : min (min e c.length) c.length - 1 - (min e c.length - 1 - j) = j := by omega
      simp only [e2] at this
      simpa using this

/-- the window of `prev_moment_operating_on(end, max_distance)` counts from `end` itself, also past the end of the circuit:
a circuit of five moments with the only operation in moment 1 is not reached from `end = 13` within nine moments -/
example : prevMomentWithin [[], [{ id := 1, qubits := [0], mkeys := [], ckeys := [] }], [], [], []] [0] 13 9 = none
    ∧ prevMomentWithin [[], [{ id := 1, qubits := [0], mkeys := [], ckeys := [] }], [], [], []] [0] 13 12 = some 1 := by decide

end CirqVerif.C05
