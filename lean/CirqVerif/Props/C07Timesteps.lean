import CirqVerif.Proofs.C07Timesteps
/-!
# C07 — the timestep factoring the router works on respects every dependency of the circuit

`RouteCQC` routes the two-qubit skeleton and re-inserts the one-qubit operations per timestep.  For every circuit (any operations,
qubits, measurement and control keys) the timesteps computed by the model of Model/C07Timesteps — tied to the implementation by the
`timesteps` stream of the C07 harness, which compares both lists of timesteps exactly — keep each operation after the earlier
operations it depends on; together with `C07_replay_route` (the SWAP bookkeeping) this is what makes the routed circuit the original
up to the reported permutation also for circuits with measurements and classical control.
-/
namespace CirqVerif.C07
open CirqVerif.C05

/-- **Timesteps respect dependencies**: in the factoring of a circuit into timesteps that `RouteCQC` routes by, every operation comes
strictly after each earlier two-qubit operation it conflicts with (a shared qubit, or a measurement key one of them writes and the
other reads or writes) and not before any earlier one-qubit operation it shares a qubit or key with — for every circuit -/
theorem C07_timesteps_respect_dependencies (ops : List Op) : (assign {} ops).Pairwise Rel :=
  (assign_spec ops {} [] ⟨by simp, by simp⟩).2

/-- the timestep of `X(q0).with_classical_controls(k)` after `CZ(q1, q2); measure(q1, key = k)` is that of the measurement, not 0 -/
example : (assign {} [⟨1, [1, 2], [], []⟩, ⟨2, [1], [7], []⟩, ⟨3, [0], [], [7]⟩]).map (fun e => (e.1.id, e.2.1)) = [(1, 0), (2, 1), (3, 1)] := by decide

/-- **The timesteps are those of the layout**: the state `runTS` builds (what the implementation returns as two lists of timesteps) holds
every operation in the bucket `assign` names, so `C07_timesteps_respect_dependencies` is a statement about that layout -/
theorem C07_layout_is_assignment (ops : List Op) : Placed (runTS ops) (assign {} ops) := by
  have := placed_fold ops {} [] ⟨by simp, by simp⟩
  simpa [runTS] using this

end CirqVerif.C07
