import CirqVerif.Model.C09
/-!
# C09 — property theorems (channel representations, trajectory unravelling)
-/
namespace CirqVerif.C09

theorem selectKraus_ge (ws : List Rat) (p : Rat) (i j : Nat) (h : selectKraus ws p i = some j) : i ≤ j := by
  induction ws generalizing p i with
  | nil => simp [selectKraus] at h
  | cons w ws ih =>
    simp only [selectKraus] at h
    split at h
    · simp only [Option.some.injEq] at h; omega
    · have := ih _ _ h; omega

theorem cumulative_nonneg (ws : List Rat) (hw : ∀ w ∈ ws, 0 ≤ w) (k : Nat) : 0 ≤ cumulative ws k := by
  induction ws generalizing k with
  | nil => cases k <;> simp [cumulative]
  | cons w ws ih =>
    cases k with
    | zero => simp [cumulative]
    | succ k =>
      simp only [cumulative]
      have h1 := hw w (by simp)
      have h2 := ih (fun x hx => hw x (by simp [hx])) k
      grind

/-- **The trajectory loop selects Kraus operator `k` exactly when the uniform draw lies in the `k`-th
interval of the cumulative weights** — so branch `k` is taken with probability `wₖ = ‖Kₖψ‖²`
(for non-negative weights and a draw `p ≥ 0`). -/
theorem C09_select_iff (ws : List Rat) (hw : ∀ w ∈ ws, 0 ≤ w) (p : Rat) (hp : 0 ≤ p) (k : Nat)
    (hk : k < ws.length) :
    selectKraus ws p 0 = some k ↔ (cumulative ws k ≤ p ∧ p < cumulative ws (k + 1)) := by
  suffices h : ∀ (ws : List Rat), (∀ w ∈ ws, 0 ≤ w) → ∀ (p : Rat), 0 ≤ p → ∀ (i k : Nat), k < ws.length →
      (selectKraus ws p i = some (i + k) ↔ (cumulative ws k ≤ p ∧ p < cumulative ws (k + 1))) by
    simpa using h ws hw p hp 0 k hk
  intro ws
  induction ws with
  | nil => intro _ p _ i k hk; simp at hk
  | cons w ws ih =>
    intro hw p hp i k hk
    have hw0 : 0 ≤ w := hw w (by simp)
    have hws : ∀ x ∈ ws, 0 ≤ x := fun x hx => hw x (by simp [hx])
    cases k with
    | zero =>
      simp only [selectKraus, cumulative, Nat.add_zero]
      by_cases h : p - w < 0
      · simp only [h, if_true, true_iff]
        constructor
        · exact hp
        · grind
      · simp only [h, if_false]
        constructor
        · intro hs
          have := selectKraus_ge _ _ _ _ hs
          omega
        · rintro ⟨_, h2⟩
          exfalso
          grind
    | succ k =>
      have hk' : k < ws.length := by simpa using hk
      simp only [selectKraus, cumulative]
      by_cases h : p - w < 0
      · simp only [h, if_true]
        constructor
        · intro hs; simp only [Option.some.injEq] at hs; omega
        · rintro ⟨h1, _⟩
          exfalso
          have := cumulative_nonneg ws hws k
          grind
      · simp only [h, if_false]
        have hp' : 0 ≤ p - w := by grind
        have := ih hws (p - w) hp' (i + 1) k hk'
        have hidx : i + 1 + k = i + (k + 1) := by omega
        rw [hidx] at this
        rw [this]
        constructor
        · rintro ⟨h1, h2⟩; constructor <;> grind
        · rintro ⟨h1, h2⟩; constructor <;> grind

/-- the Choi ↔ superoperator index reshuffle is an involution on `d²×d²` matrices
(`choi_to_superoperator ∘ superoperator_to_choi = id`) -/
theorem C09_reshuffle_involution (d : Nat) (hd : 0 < d) (m : Nat → Nat → α) (r c : Nat)
    (hr : r < d * d) (hc : c < d * d) :
    reshuffle d (reshuffle d m) r c = m r c := by
  unfold reshuffle
  have h1 : (r / d * d + c / d) / d = r / d := by
    have : c / d < d := Nat.div_lt_of_lt_mul hc
    rw [Nat.mul_comm, Nat.mul_add_div hd, Nat.div_eq_of_lt this, Nat.add_zero]
  have h2 : (r / d * d + c / d) % d = c / d := by
    have : c / d < d := Nat.div_lt_of_lt_mul hc
    rw [Nat.mul_comm, Nat.mul_add_mod, Nat.mod_eq_of_lt this]
  have h3 : (r % d * d + c % d) / d = r % d := by
    have : c % d < d := Nat.mod_lt _ hd
    rw [Nat.mul_comm, Nat.mul_add_div hd, Nat.div_eq_of_lt this, Nat.add_zero]
  have h4 : (r % d * d + c % d) % d = c % d := by
    have : c % d < d := Nat.mod_lt _ hd
    rw [Nat.mul_comm, Nat.mul_add_mod, Nat.mod_eq_of_lt this]
  rw [h1, h2, h3, h4, Nat.div_add_mod' r d, Nat.div_add_mod' c d]

end CirqVerif.C09
