import CirqVerif.Props.C12TerminalLoop
/-!
# C12 / C18 — instances of a key recorded by a loop without repetition ids

The full key an operation records under (its written key prefixed by the scopes it sits in) does not depend on the
iteration when the loop has no repetition ids, so the unrolled loop records every key of its body once per repetition:
`n + 1` repetitions give `(n + 1) ×` the instances of one iteration (`C12_loop_instances`).  This is the count
`Sampler._get_measurement_shapes` has to report (`Model.C12.recordShapes` is compared with the samplers on every run).
-/
namespace CirqVerif.C12

/-- the full key a raw operation records under -/
def keyR (o : RawOp) : Option Key := o.mkey.map (fun k => k.prefixed o.scope)

theorem scopePassS_keys (measured : List (Key × List Stamp)) (ops : List RawOp) :
    (scopePassS measured ops).map (·.mkey) = ops.map keyR := by
  have h := C12_scopePass_mkeys measured ops
  rw [h]
  rfl

theorem flatMap_const_keys {ι : Type} (idx : List ι) (f : ι → List RawOp) (b : List (Option Key))
    (h : ∀ i, (f i).map keyR = b) : (idx.flatMap f).map keyR = rep idx.length b := by
  induction idx with
  | nil => rfl
  | cons i is ih => simp only [List.flatMap_cons, List.map_append, h, ih, List.length_cons, rep]

/-- the keys one run of the body records, in the scope of the loop -/
def loopBodyKeys (fuel : Nat) (pos : List Nat) (body : List (List Node)) (kmap : List (String × String)) (pp : List String) :
    List (Option Key) :=
  ((body.flatten.zipIdx).flatMap (fun (n, i) => rawNode fuel (pos ++ [i]) n)).map
    (fun o => (o.mkey.map (Key.mapName kmap)).map (fun k => k.prefixed (pp ++ o.scope)))

theorem rawCO_keys (fuel : Nat) (pos : List Nat) (body : List (List Node)) (n : Nat) (qmap : List (Nat × Nat))
    (kmap : List (String × String)) (pp : List String) :
    (rawCO (fuel + 1) pos (.mk body ((n : Int) + 1) qmap kmap none pp)).map keyR
      = rep (n + 1) (loopBodyKeys fuel pos body kmap pp) := by
  have hne : ((n : Int) + 1 = 0) = False := by simp; omega
  have hlt : decide ((n : Int) + 1 < 0) = false := by simp; omega
  have hlen : (List.range ((n : Int) + 1).natAbs).length = n + 1 := by
    simp only [List.length_range]; omega
  simp only [rawCO, hne, if_false, hlt]
  rw [← hlen]
  apply flatMap_const_keys
  intro k
  simp [loopBodyKeys, keyR, Function.comp_def]

/-- a list of optional keys seen through `instances` -/
theorem instances_map {α : Type} (keyOf : α → Option Key) (k : Key) (l : List α) :
    instances keyOf k l = instances id k (l.map keyOf) := by
  simp [instances, List.filter_map, Function.comp_def]

/-- **a loop of `n + 1` repetitions without repetition ids records every key `(n + 1) ×` as often as one iteration** -/
theorem C12_loop_instances (fuel : Nat) (pos : List Nat) (body : List (List Node)) (n : Nat) (qmap : List (Nat × Nat))
    (kmap : List (String × String)) (pp : List String) (k : Key) (measured : List (Key × List Stamp)) :
    instances FlatOp.mkey k (scopePassS measured (rawCO (fuel + 1) pos (.mk body ((n : Int) + 1) qmap kmap none pp)))
      = (n + 1) * instances id k (loopBodyKeys fuel pos body kmap pp) := by
  rw [instances_map, scopePassS_keys, rawCO_keys, C12_instances_repeated]

end CirqVerif.C12
