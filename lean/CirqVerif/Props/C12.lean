import CirqVerif.Model.C12
/-!
# C12 — property theorems about the unrolling specification
-/
namespace CirqVerif.C12

/-- the scoping pass neither drops, duplicates nor reorders operations, and leaves qubits alone -/
theorem C12_scopePass_structure (measured : List (Key × List Stamp)) (ops : List RawOp) :
    (scopePassS measured ops).map (fun o => (o.id, o.qubits, o.inverted))
      = ops.map (fun o => (o.id, o.qubits, o.inverted)) := by
  induction ops generalizing measured with
  | nil => rfl
  | cons o os ih => simp [scopePassS, ih]

/-- every measurement key of the unrolled form is the written key prefixed by the scopes it sits in -/
theorem C12_scopePass_mkeys (measured : List (Key × List Stamp)) (ops : List RawOp) :
    (scopePassS measured ops).map (·.mkey) = ops.map (fun o => o.mkey.map (fun k => k.prefixed o.scope)) := by
  induction ops generalizing measured with
  | nil => rfl
  | cons o os ih => simp [scopePassS, ih]

/-- without sub-circuits (no instance stamps anywhere) lexical binding is binding against everything recorded so far -/
theorem C12_flat_is_dynamic (measured : List Key) (ops : List RawOp)
    (h : ∀ o ∈ ops, o.stamps = [] ∧ ∀ c ∈ o.conds, c.stamps = []) :
    scopePassS (measured.map (fun k => (k, []))) ops = scopePass measured ops := by
  induction ops generalizing measured with
  | nil => rfl
  | cons o os ih =>
    have ho : o.stamps = [] := (h o (by simp)).1
    have hc : ∀ c ∈ o.conds, c.stamps = [] := (h o (by simp)).2
    have hos : ∀ o' ∈ os, o'.stamps = [] ∧ ∀ c ∈ o'.conds, c.stamps = [] := fun o' ho' => h o' (by simp [ho'])
    have hvis : ∀ c ∈ o.conds, ((measured.map (fun k => (k, ([] : List Stamp)))).filter
        (fun m => visible m.1 m.2 c.stamps)).map (·.1) = measured := by
      intro c hcm
      rw [hc c hcm]
      simp [visible, visibleAux, List.filter_eq_self.mpr, Function.comp_def]
    have hconds : o.conds.map (fun c =>
          (bindCond c.scope (((measured.map (fun k => (k, ([] : List Stamp)))).filter (fun m => visible m.1 m.2 c.stamps)).map (·.1)) c.key, c.index))
        = o.conds.map (fun c => (bindCond c.scope measured c.key, c.index)) := by
      apply List.map_congr_left
      intro c hcm
      rw [hvis c hcm]
    simp only [scopePassS, scopePass, hconds]
    congr 1
    have := ih (measured ++ (o.mkey.map (fun k => k.prefixed o.scope)).toList) hos
    rw [← this, ho]
    simp

/-- a condition put on a whole sub-circuit is written outside of it: every operation the sub-circuit unrolls to carries it
first, with the scope and instance chain of the enclosing body (none at this level), so it is bound like a condition of a
plain operation standing where the sub-circuit stands -/
theorem C12_controlled_subcircuit (fuel : Nat) (pos : List Nat) (c : CircOp) (conds : List (Key × Int)) :
    rawNode fuel pos (.sub c conds)
      = (rawNode fuel pos (.sub c [])).map (fun o =>
          { o with conds := conds.map (fun (k, i) => ({ key := k, index := i } : RawCond)) ++ o.conds }) := by
  simp [rawNode]

theorem visibleAux_append (len acc : Nat) (common m c : List Stamp) :
    visibleAux len acc (common ++ m) (common ++ c) = visibleAux len (acc + (common.map (·.2.2)).sum) m c := by
  induction common generalizing acc with
  | nil => simp
  | cons x xs ih => simp [visibleAux, ih, Nat.add_assoc]

/-- a measurement made in another iteration of an enclosing loop is not a binding candidate (the body of a loop is
scoped once per iteration, from what was recorded outside the loop) … -/
theorem C12_other_iteration_not_visible (mkey : Key) (common : List Stamp) (pos : List Nat) (i j si sj : Nat)
    (ra rb : List Stamp) (h : i ≠ j) :
    visible mkey (common ++ (pos, i, si) :: ra) (common ++ (pos, j, sj) :: rb) = false := by
  simp [visible, visibleAux_append, visibleAux, h]

/-- … nor is one made inside a sibling sub-circuit whose key path is longer than the scope path of the body the two
sub-circuits stand in — the sibling has repetition ids or a parent path … -/
theorem C12_scoped_sibling_not_visible (mkey : Key) (common : List Stamp) (a b : Stamp) (ra rb : List Stamp)
    (h : a.1 ≠ b.1) (hlen : (common.map (·.2.2)).sum < mkey.path.length) :
    visible mkey (common ++ a :: ra) (common ++ b :: rb) = false := by
  have hab : a ≠ b := fun e => h (by rw [e])
  simp [visible, visibleAux_append, visibleAux, h, hab]; omega

/-- … whereas one made inside an earlier sibling that adds no scope of its own is (`len(k.path) <= len(path)` lets
it through) … -/
theorem C12_unscoped_sibling_visible (mkey : Key) (common : List Stamp) (a b : Stamp) (ra rb : List Stamp)
    (h : a.1 ≠ b.1) (hlen : mkey.path.length ≤ (common.map (·.2.2)).sum) :
    visible mkey (common ++ a :: ra) (common ++ b :: rb) = true := by
  have hab : a ≠ b := fun e => h (by rw [e])
  simp [visible, visibleAux_append, visibleAux, h, hab]; omega

/-- … and so are the measurements made directly in the body of an enclosing instance (or at top level) under a key
whose path is the scope path of that body. -/
theorem C12_enclosing_visible (mkey : Key) (outer inner : List Stamp)
    (hlen : mkey.path.length ≤ (outer.map (·.2.2)).sum) : visible mkey outer (outer ++ inner) = true := by
  have := visibleAux_append mkey.path.length 0 outer [] inner
  simp only [List.append_nil] at this
  rw [visible, this]
  cases inner <;> simp [visibleAux]; omega

/-- a condition standing in the same body as an (earlier) sub-circuit sees everything that sub-circuit records -/
theorem C12_same_body_visible (mkey : Key) (outer inner : List Stamp) : visible mkey (outer ++ inner) outer = true := by
  have := visibleAux_append mkey.path.length 0 outer inner []
  simp only [List.append_nil] at this
  rw [visible, this]
  cases inner <;> simp [visibleAux]

/-- **A condition refers to the measurement it is scoped to**: if the key has been measured in the innermost
enclosing scope, the condition binds to that measurement … -/
theorem C12_bind_innermost (scope : List String) (measured : List Key) (k : Key)
    (h : measured.contains (k.prefixed scope) = true) :
    bindCond scope measured k = k.prefixed scope := by
  unfold bindCond
  simp only
  have : (List.range (scope.length + 1)).map (fun i => k.prefixed (scope.take (scope.length - i)))
      = k.prefixed scope :: (List.range scope.length).map (fun i => k.prefixed (scope.take (scope.length - (i + 1)))) := by
    rw [List.range_succ_eq_map]
    simp
  rw [this, List.find?_cons_of_pos (by simpa using h)]
  rfl

/-- … and if it has not been measured in any enclosing scope the condition is left referring to the
unscoped (external) key. -/
theorem C12_bind_external (scope : List String) (measured : List Key) (k : Key)
    (h : ∀ i ≤ scope.length, measured.contains (k.prefixed (scope.take (scope.length - i))) = false) :
    bindCond scope measured k = k := by
  unfold bindCond
  simp only
  have : ((List.range (scope.length + 1)).map (fun i => k.prefixed (scope.take (scope.length - i)))).find?
      (fun c => measured.contains c) = none := by
    rw [List.find?_eq_none]
    intro x hx
    simp only [List.mem_map, List.mem_range] at hx
    obtain ⟨i, hi, rfl⟩ := hx
    have := h i (by omega)
    simpa using this
  rw [this]; rfl

/-- zero repetitions unroll to nothing; the unrolled body is repeated |repetitions| times otherwise
(here: without repetition ids) -/
theorem C12_reps_zero (fuel : Nat) (pos : List Nat) (body : List (List Node)) (qmap : List (Nat × Nat)) (kmap : List (String × String))
    (repIds : Option (List String)) (pp : List String) :
    rawCO (fuel + 1) pos (.mk body 0 qmap kmap repIds pp) = [] := by
  simp [rawCO]

theorem C12_reps_length (fuel : Nat) (pos : List Nat) (body : List (List Node)) (reps : Int) (hr : reps ≠ 0)
    (qmap : List (Nat × Nat)) (kmap : List (String × String)) (pp : List String) :
    (rawCO (fuel + 1) pos (.mk body reps qmap kmap none pp)).length
      = reps.natAbs * ((body.flatten.zipIdx).flatMap (fun (n, i) => rawNode fuel (pos ++ [i]) n)).length := by
  have hrep : ∀ (n : Nat) (f : Nat → List RawOp) (len : Nat), (∀ k, (f k).length = len) →
      ((List.range n).flatMap f).length = n * len := by
    intro n f len hf
    induction n with
    | zero => simp
    | succ n ih => rw [List.range_succ, List.flatMap_append]; simp [ih, hf, Nat.succ_mul]
  simp only [rawCO, hr, if_false]
  rw [hrep _ _ ((body.flatten.zipIdx).flatMap (fun (n, i) => rawNode fuel (pos ++ [i]) n)).length]
  intro k
  split <;> simp

/-- qubit maps compose: mapping with `m₁` and then with `m₂` is mapping once with the composition -/
theorem C12_qubit_maps_compose (m₁ m₂ : List (Nat × Nat)) (qs : List Nat) :
    (qs.map (assocD m₁)).map (assocD m₂) = qs.map (fun q => assocD m₂ (assocD m₁ q)) := by
  simp

end CirqVerif.C12
