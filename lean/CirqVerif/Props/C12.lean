import CirqVerif.Model.C12
/-!
# C12 — property theorems about the unrolling specification
-/
namespace CirqVerif.C12

/-- the scoping pass neither drops, duplicates nor reorders operations, and leaves qubits alone -/
theorem C12_scopePass_structure (measured : List Key) (ops : List RawOp) :
    (scopePass measured ops).map (fun o => (o.id, o.qubits, o.inverted))
      = ops.map (fun o => (o.id, o.qubits, o.inverted)) := by
  induction ops generalizing measured with
  | nil => rfl
  | cons o os ih => simp [scopePass, ih]

/-- every measurement key of the unrolled form is the written key prefixed by the scopes it sits in -/
theorem C12_scopePass_mkeys (measured : List Key) (ops : List RawOp) :
    (scopePass measured ops).map (·.mkey) = ops.map (fun o => o.mkey.map (fun k => k.prefixed o.scope)) := by
  induction ops generalizing measured with
  | nil => rfl
  | cons o os ih => simp [scopePass, ih]

/-- **A condition refers to the measurement it is scoped to**: if the key has been measured in the innermost
enclosing scope, the condition binds to that measurement … -/
theorem C12_bind_innermost (scope : List String) (measured : List Key) (k : Key)
    (h : measured.contains (k.prefixed scope) = true) :
    bindCond scope measured k = k.prefixed scope := by
  unfold bindCond
  simp only
  have : (List.range (scope.length + 1)).map (fun i => k.prefixed (scope.take (scope.length - i)))
      = k.prefixed scope :: (List.range scope.length).map (fun i => k.prefixed (scope.take (scope.length - (i + 1)))) := by
    rw [List.range_succ_eq_map]
    simp
  rw [this, List.find?_cons_of_pos (by simpa using h)]
  rfl

/-- … and if it has not been measured in any enclosing scope the condition is left referring to the
unscoped (external) key. -/
theorem C12_bind_external (scope : List String) (measured : List Key) (k : Key)
    (h : ∀ i ≤ scope.length, measured.contains (k.prefixed (scope.take (scope.length - i))) = false) :
    bindCond scope measured k = k := by
  unfold bindCond
  simp only
  have : ((List.range (scope.length + 1)).map (fun i => k.prefixed (scope.take (scope.length - i)))).find?
      (fun c => measured.contains c) = none := by
    rw [List.find?_eq_none]
    intro x hx
    simp only [List.mem_map, List.mem_range] at hx
    obtain ⟨i, hi, rfl⟩ := hx
    have := h i (by omega)
    simpa using this
  rw [this]; rfl

/-- zero repetitions unroll to nothing; the unrolled body is repeated |repetitions| times otherwise
(here: without repetition ids) -/
theorem C12_reps_zero (fuel : Nat) (body : List (List Node)) (qmap : List (Nat × Nat)) (kmap : List (String × String))
    (repIds : Option (List String)) (pp : List String) :
    rawCO (fuel + 1) (.mk body 0 qmap kmap repIds pp) = [] := by
  simp [rawCO]

theorem C12_reps_length (fuel : Nat) (body : List (List Node)) (reps : Int) (hr : reps ≠ 0)
    (qmap : List (Nat × Nat)) (kmap : List (String × String)) (pp : List String) :
    (rawCO (fuel + 1) (.mk body reps qmap kmap none pp)).length
      = reps.natAbs * (body.flatten.flatMap (rawNode fuel)).length := by
  have hrep : ∀ (n : Nat) (l : List RawOp), (List.replicate n l).flatten.length = n * l.length := by
    intro n l
    induction n with
    | zero => simp
    | succ n ih => simp [List.replicate_succ, ih, Nat.succ_mul]; omega
  simp only [rawCO, hr, if_false]
  rw [hrep]
  split <;> simp

/-- qubit maps compose: mapping with `m₁` and then with `m₂` is mapping once with the composition -/
theorem C12_qubit_maps_compose (m₁ m₂ : List (Nat × Nat)) (qs : List Nat) :
    (qs.map (assocD m₁)).map (assocD m₂) = qs.map (fun q => assocD m₂ (assocD m₁ q)) := by
  simp

end CirqVerif.C12
