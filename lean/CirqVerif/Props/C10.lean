import CirqVerif.Model.C10
/-!
# C10 — property theorems (sweeps enumerate exactly what their definition describes)
-/
namespace CirqVerif.C10

theorem linspaceValues_length (a b : Rat) (n : Nat) : (linspaceValues a b n).length = n := by
  unfold linspaceValues
  split
  · simp_all
  · simp

theorem extendTo_length (n : Nat) (l : List Params) (h : l ≠ []) (hn : l.length ≤ n) :
    (extendTo n l).length = n := by
  unfold extendTo
  cases hl : l.getLast? with
  | none => exact absurd (List.getLast?_eq_none_iff.mp hl) h
  | some last => simp; omega

/-- **`len` is the number of assignments iteration yields**, for every sweep (products, zips,
zip-longest, concatenations, linspaces, points, lists, nested arbitrarily). -/
theorem C10_len_eq_tuples (s : Sweep) (h : WF s) : len s = (tuples s).length := by
  induction s with
  | unit => rfl
  | empty => rfl
  | points k vs => simp [len, tuples]
  | linspace k a b n => simp [len, tuples, linspaceValues_length]
  | list rs => rfl
  | product a b iha ihb =>
    simp only [len, tuples]
    rw [iha h.1, ihb h.2]
    generalize tuples a = ta
    generalize tuples b = tb
    induction ta with
    | nil => simp
    | cons x xs ih => simp [List.flatMap_cons, ih, Nat.succ_mul]; omega
  | zip a b iha ihb =>
    simp only [len, tuples, List.length_zipWith]
    rw [iha h.1, ihb h.2]
  | zipLongest a b iha ihb =>
    obtain ⟨ha, hb, hla, hlb⟩ := h
    simp only [len, tuples]
    have ea := iha ha
    have eb := ihb hb
    have hna : tuples a ≠ [] := by intro h0; rw [h0] at ea; simp at ea; omega
    have hnb : tuples b ≠ [] := by intro h0; rw [h0] at eb; simp at eb; omega
    rw [List.length_take, List.length_zipWith,
      extendTo_length _ _ hna (by rw [← ea]; exact Nat.le_max_left _ _),
      extendTo_length _ _ hnb (by rw [← eb]; exact Nat.le_max_right _ _)]
    simp
  | concat a b iha ihb =>
    simp only [len, tuples, List.length_append]
    rw [iha h.1, ihb h.2]

/-- **Indexing agrees with iteration**, negative indices included; out-of-range indices raise. -/
theorem C10_getItem_eq (s : Sweep) (h : WF s) (i : Int) :
    getItem s i =
      if i < -(len s : Int) ∨ i ≥ (len s : Int) then .error .index
      else match (tuples s)[(if i < 0 then i + (len s : Int) else i).toNat]? with
        | some p => .ok p
        | none => .error .index := rfl

/-- a valid index always succeeds (never the internal `none` branch) -/
theorem C10_getItem_ok (s : Sweep) (h : WF s) (i : Int) (hlo : -(len s : Int) ≤ i) (hhi : i < (len s : Int)) :
    ∃ p, getItem s i = .ok p := by
  unfold getItem
  have hl := C10_len_eq_tuples s h
  simp only
  rw [if_neg (by omega)]
  have : (if i < 0 then i + (len s : Int) else i).toNat < (tuples s).length := by
    rw [← hl]; split <;> omega
  rw [List.getElem?_eq_getElem this]
  exact ⟨_, rfl⟩

/-- **Product order**: the leftmost factor is the outermost loop. -/
theorem C10_product_order (a b : Sweep) :
    tuples (.product a b) = (tuples a).flatMap (fun x => (tuples b).map (fun y => x ++ y)) := rfl

/-- **Zip** stops at the shorter operand; **ZipLongest** runs to the longer one. -/
theorem C10_zip_len (a b : Sweep) : len (.zip a b) = min (len a) (len b) := rfl
theorem C10_zipLongest_len (a b : Sweep) : len (.zipLongest a b) = max (len a) (len b) := rfl

/-- ZipLongest repeats the *last* assignment of the shorter operand -/
theorem C10_extendTo_get (n : Nat) (l : List Params) (last : Params) (hl : l.getLast? = some last) (k : Nat)
    (hk1 : l.length ≤ k) (hk2 : k < n) : (extendTo n l)[k]? = some last := by
  unfold extendTo
  rw [hl]
  simp only
  rw [List.getElem?_append_right hk1, List.getElem?_replicate]
  simp; omega

/-- `Linspace` end points: first value is `start`, last value is `stop` -/
theorem C10_linspace_endpoints (a b : Rat) (n : Nat) (hn : 2 ≤ n) :
    (linspaceValues a b n)[0]? = some a ∧ (linspaceValues a b n)[n - 1]? = some b := by
  unfold linspaceValues
  have h1 : ¬ n = 1 := by omega
  simp only [h1, if_false]
  constructor
  · rw [List.getElem?_map, List.getElem?_range (by omega)]
    simp only [Option.map_some, Option.some.injEq]
    have : ((0 : Nat) : Rat) = 0 := rfl
    rw [this]
    grind
  · rw [List.getElem?_map, List.getElem?_range (by omega)]
    simp only [Option.map_some, Option.some.injEq]
    have hcast : ((n - 1 : Nat) : Rat) = (n : Rat) - 1 := by
      have h := Nat.sub_add_cancel (show 1 ≤ n by omega)
      have : (((n - 1) + 1 : Nat) : Rat) = (n : Rat) := by rw [h]
      grind
    have hne : ((n : Rat) - 1) ≠ 0 := by
      have h2 : ((n - 1 : Nat) : Rat) ≠ 0 := by
        have : n - 1 ≠ 0 := by omega
        exact_mod_cast this
      rw [hcast] at h2; exact h2
    rw [hcast]
    generalize ((n : Rat) - 1) = x at hne
    grind


/-! ### resolution = substitution by ordinary algebra -/

theorem evalAt_mkAdd (env : String → Rat) (a b : Expr) : evalAt env (mkAdd a b) = evalAt env a + evalAt env b := by
  unfold mkAdd; split <;> simp [evalAt]

theorem evalAt_mkMul (env : String → Rat) (a b : Expr) : evalAt env (mkMul a b) = evalAt env a * evalAt env b := by
  unfold mkMul; split <;> simp [evalAt]

/-- **One substitution pass commutes with evaluation**: computing the value after substituting the
bindings equals computing the value of the original expression with every bound symbol replaced by the
value of its binding (constant folding changes nothing). -/
theorem C10_subst_commutes (r : Resolver) (env : String → Rat) (e : Expr) :
    evalAt env (subst r e)
      = evalAt (fun n => match lookup r n with | some b => evalAt env b | none => env n) e := by
  induction e with
  | num q => rfl
  | sym n =>
    simp only [subst, evalAt]
    cases lookup r n <;> rfl
  | add a b iha ihb => simp only [subst, evalAt, evalAt_mkAdd, iha, ihb]
  | mul a b iha ihb => simp only [subst, evalAt, evalAt_mkMul, iha, ihb]

/-- an assignment that satisfies every binding of the resolver -/
def Models (r : Resolver) (env : String → Rat) : Prop :=
  ∀ n b, lookup r n = some b → env n = evalAt env b

/-- **Recursive resolution is sound**: whenever `value_of(e, recursive=True)` returns a value (no loop),
that value equals the original expression under every assignment consistent with the bindings — for every
expression, resolver chain depth and order of bindings. -/
theorem C10_resolveRec_sound (r : Resolver) (env : String → Rat) (hm : Models r env) :
    ∀ (fuel : Nat) (visiting : List String) (e v : Expr),
      resolveRec r fuel visiting e = some v → evalAt env v = evalAt env e := by
  intro fuel
  induction fuel with
  | zero => intro visiting e v h; simp [resolveRec] at h
  | succ fuel ih =>
    intro visiting e
    induction e generalizing visiting with
    | num q => intro v h; simp only [resolveRec, Option.some.injEq] at h; rw [← h]
    | sym n =>
      intro v h
      simp only [resolveRec] at h
      split at h
      · simp only [Option.some.injEq] at h; rw [← h]
      · rename_i b hb
        split at h
        · simp only [Option.some.injEq] at h; rw [← h]
        · split at h
          · cases h
          · have := ih _ _ _ h
            rw [this]
            exact (hm n b hb).symm
    | add a b iha ihb =>
      intro v h
      simp only [resolveRec, bind, Option.bind, pure] at h
      cases ha : resolveRec r (fuel + 1) visiting a with
      | none => rw [ha] at h; cases h
      | some x =>
        rw [ha] at h
        cases hb : resolveRec r (fuel + 1) visiting b with
        | none => rw [hb] at h; cases h
        | some y =>
          rw [hb] at h
          simp only [Option.some.injEq] at h
          rw [← h, evalAt_mkAdd, iha _ _ ha, ihb _ _ hb]; rfl
    | mul a b iha ihb =>
      intro v h
      simp only [resolveRec, bind, Option.bind, pure] at h
      cases ha : resolveRec r (fuel + 1) visiting a with
      | none => rw [ha] at h; cases h
      | some x =>
        rw [ha] at h
        cases hb : resolveRec r (fuel + 1) visiting b with
        | none => rw [hb] at h; cases h
        | some y =>
          rw [hb] at h
          simp only [Option.some.injEq] at h
          rw [← h, evalAt_mkMul, iha _ _ ha, ihb _ _ hb]; rfl

/-! ### composing resolvers -/

theorem evalAt_congr (env env' : String → Rat) (e : Expr) (h : ∀ n, env n = env' n) : evalAt env e = evalAt env' e := by
  induction e with
  | num q => rfl
  | sym n => exact h n
  | add a b iha ihb => simp only [evalAt, iha, ihb]
  | mul a b iha ihb => simp only [evalAt, iha, ihb]

theorem lookup_map_subst (r1 r2 : Resolver) (n : String) :
    lookup (r1.map (fun (kv : String × Expr) => (kv.1, subst r2 kv.2))) n = (lookup r1 n).map (subst r2) := by
  induction r1 with
  | nil => rfl
  | cons kv rest ih =>
    unfold lookup at ih ⊢
    simp only [List.map_cons, List.find?_cons]
    by_cases h : (kv.1 == n) = true
    · simp [h]
    · have h' : (kv.1 == n) = false := by simpa using h
      simp only [h']
      exact ih

theorem lookup_append (a b : Resolver) (n : String) :
    lookup (a ++ b) n = match lookup a n with | some e => some e | none => lookup b n := by
  unfold lookup
  rw [List.find?_append]
  cases h : List.find? (fun x => x.1 == n) a <;> simp

theorem lookup_cons (kv : String × Expr) (rest : Resolver) (n : String) :
    lookup (kv :: rest) n = if kv.1 == n then some kv.2 else lookup rest n := by
  unfold lookup
  simp only [List.find?_cons]
  cases h : (kv.1 == n) <;> simp

theorem lookup_filter (p : String × Expr → Bool) (r2 : Resolver) (n : String) (hp : ∀ kv : String × Expr, kv.1 = n → p kv = true) :
    lookup (r2.filter p) n = lookup r2 n := by
  induction r2 with
  | nil => rfl
  | cons kv rest ih =>
    rw [List.filter_cons]
    cases hpk : p kv with
    | true =>
      simp only [if_true]
      rw [lookup_cons, lookup_cons, ih]
    | false =>
      have hne : ¬ kv.1 = n := fun h => by rw [hp kv h] at hpk; cases hpk
      have hb : (kv.1 == n) = false := by simpa using hne
      simp only [Bool.false_eq_true, if_false]
      rw [lookup_cons, hb, ih]
      simp

theorem lookup_filter_unbound (r1 r2 : Resolver) (n : String) (h : lookup r1 n = none) :
    lookup (r2.filter (fun (kv : String × Expr) => (lookup r1 kv.1).isNone)) n = lookup r2 n := by
  apply lookup_filter
  intro kv hk
  simp only [hk, h]
  rfl

/-- what the composed resolver binds a symbol to -/
theorem lookup_compose (r1 r2 : Resolver) (n : String) :
    lookup (compose r1 r2) n = match lookup r1 n with | some b => some (subst r2 b) | none => lookup r2 n := by
  unfold compose
  rw [lookup_append, lookup_map_subst]
  cases h : lookup r1 n with
  | some b => simp
  | none => simpa using lookup_filter_unbound r1 r2 n h

/-- **composing resolvers equals resolving once with the composition**: substituting with `compose r1 r2` has, under
every assignment of the remaining symbols, the value of substituting with `r1` and then with `r2` -/
theorem C10_compose_resolvers (r1 r2 : Resolver) (env : String → Rat) (e : Expr) :
    evalAt env (subst (compose r1 r2) e) = evalAt env (subst r2 (subst r1 e)) := by
  rw [C10_subst_commutes, C10_subst_commutes r2, C10_subst_commutes r1]
  apply evalAt_congr
  intro n
  rw [lookup_compose]
  cases h : lookup r1 n with
  | some b => simp only; rw [C10_subst_commutes]
  | none => simp only

end CirqVerif.C10
