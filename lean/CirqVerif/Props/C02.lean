import CirqVerif.Spec.Circuit
import CirqVerif.Proofs.Controlled
/-!
# C02 — property theorems: the projector algebra behind the Born-rule semantics

`projFn axes a ψ` keeps the amplitudes whose digits at `axes` equal the outcome `a` (unnormalised collapse).
The probability of outcome `a` is the squared norm of that vector; the theorems below are the facts that
make the sequential semantics `Spec.Circuit.run` independent of *when* a measurement is performed relative
to operations on other qudits (terminal sampling = per-repetition simulation) and make outcome
probabilities sum to one.
-/
namespace CirqVerif.Circ
open CirqVerif CirqVerif.C08

section
variable {R : Type} [Lean.Grind.CommRing R]

/-- unnormalised collapse onto outcome `a` of a measurement of `axes` -/
def projFn (axes : List Nat) (a : Idx) (ψ : State R) : State R :=
  fun idx => if getAxes idx axes = a then ψ idx else 0

/-- the projector as a matrix on the measured axes -/
def projMat (a : Idx) : Mat R := fun r c => if r = a ∧ c = a then 1 else 0

/-- the collapse is the action of the projector matrix `|a⟩⟨a|` on the measured axes -/
theorem C02_proj_is_operator (shape axes : List Nat) (a : Idx) (ψ : State R) (idx : Idx)
    (hv : ValidIdx shape idx) (hax : ∀ x ∈ axes, x < idx.length) :
    applyOp (projMat a) (axes.map (fun x => shape.getD x 1)) axes ψ idx = projFn axes a ψ idx := by
  unfold applyOp projFn projMat
  by_cases hg : getAxes idx axes = a
  · rw [if_pos hg]
    have step : ∀ b ∈ allIdx (axes.map (fun x => shape.getD x 1)),
        (if getAxes idx axes = a ∧ b = a then (1 : R) else 0) * ψ (setAxes idx axes b)
          = if a = b then ψ (setAxes idx axes b) else 0 := by
      intro b _
      by_cases hb : b = a
      · subst hb; simp [hg]; grind
      · have : ¬ a = b := fun h => hb h.symm
        simp [hb, this]; grind
    rw [sumL_congr _ _ _ step, sumL_allIdx_delta]
    -- a = own digits, which are a valid outcome
    have hvalid : ValidIdx (axes.map (fun x => shape.getD x 1)) (getAxes idx axes) := by
      have hget : ∀ x, x < idx.length → idx.getD x 0 < shape.getD x 1 := by
        intro x hx
        clear hax hg step
        induction shape generalizing idx x with
        | nil => cases idx <;> simp_all [ValidIdx]
        | cons d ds ih => cases idx with
          | nil => simp at hx
          | cons y ys => cases x with
            | zero => simpa using hv.1
            | succ x => simpa using ih ys hv.2 x (by simpa using hx)
      clear hg step
      induction axes with
      | nil => simp [getAxes, ValidIdx]
      | cons x xs ih =>
        simp only [getAxes, List.map_cons, ValidIdx]
        exact ⟨hget x (hax x (by simp)), ih (fun y hy => hax y (by simp [hy]))⟩
    rw [← hg, if_pos (mem_allIdx_of_valid _ _ hvalid), setAxes_getAxes_self idx axes hax]
  · rw [if_neg hg]
    refine Eq.trans (sumL_congr _ _ (fun _ => 0) ?_) (sumL_zero _)
    intro b _
    simp [hg]; grind

/-- **Measurement commutes with operations on other qudits**: collapsing `axesM` onto outcome `a` and
applying any operator `U` to disjoint axes can be done in either order (so a measurement can be deferred
to the end, or performed first, without changing any branch state or probability). -/
theorem C02_measure_commutes_with_disjoint_op (U : Mat R) (dU aU axesM : List Nat) (a : Idx)
    (ψ : State R) (idx : Idx) (hd : ∀ x ∈ aU, x ∉ axesM) :
    applyOp U dU aU (projFn axesM a ψ) idx = projFn axesM a (applyOp U dU aU ψ) idx := by
  unfold projFn applyOp
  by_cases hg : getAxes idx axesM = a
  · rw [if_pos hg]
    apply sumL_congr
    intro b _
    show U (getAxes idx aU) b * (if getAxes (setAxes idx aU b) axesM = a then ψ (setAxes idx aU b) else 0) = _
    rw [getAxes_setAxes_disjoint idx axesM aU b (fun x hx hu => hd x hu hx), if_pos hg]
  · rw [if_neg hg]
    refine Eq.trans (sumL_congr _ _ (fun _ => 0) ?_) (sumL_zero _)
    intro b _
    show U (getAxes idx aU) b * (if getAxes (setAxes idx aU b) axesM = a then ψ (setAxes idx aU b) else 0) = _
    rw [getAxes_setAxes_disjoint idx axesM aU b (fun x hx hu => hd x hu hx), if_neg hg]
    grind

/-- distinct outcomes are orthogonal, an outcome is idempotent (collapse) -/
theorem C02_proj_orthogonal (axes : List Nat) (a b : Idx) (ψ : State R) (idx : Idx) :
    projFn axes a (projFn axes b ψ) idx = if a = b then projFn axes a ψ idx else 0 := by
  unfold projFn
  by_cases h1 : getAxes idx axes = a <;> by_cases h2 : a = b <;> simp_all

/-- two measurements (of any axes) commute: the joint outcome distribution of terminal measurements can be
sampled at once from the final state -/
theorem C02_projections_commute (A B : List Nat) (a b : Idx) (ψ : State R) (idx : Idx) :
    projFn A a (projFn B b ψ) idx = projFn B b (projFn A a ψ) idx := by
  unfold projFn
  by_cases h1 : getAxes idx A = a <;> by_cases h2 : getAxes idx B = b <;> simp [h1, h2]

/-- **Completeness**: the collapsed states of all outcomes add up to the state (nothing is lost, so the
outcome probabilities of a normalised state sum to one) -/
theorem C02_outcomes_complete (shape axes : List Nat) (ψ : State R) (idx : Idx)
    (hv : ValidIdx shape idx) (hax : ∀ x ∈ axes, x < idx.length) :
    sumL (allIdx (axes.map (fun x => shape.getD x 1))) (fun a => projFn axes a ψ idx) = ψ idx := by
  unfold projFn
  have hvalid : ValidIdx (axes.map (fun x => shape.getD x 1)) (getAxes idx axes) := by
    have hget : ∀ x, x < idx.length → idx.getD x 0 < shape.getD x 1 := by
      intro x hx
      clear hax
      induction shape generalizing idx x with
      | nil => cases idx <;> simp_all [ValidIdx]
      | cons d ds ih => cases idx with
        | nil => simp at hx
        | cons y ys => cases x with
          | zero => simpa using hv.1
          | succ x => simpa using ih ys hv.2 x (by simpa using hx)
    induction axes with
    | nil => simp [getAxes, ValidIdx]
    | cons x xs ih =>
      simp only [getAxes, List.map_cons, ValidIdx]
      exact ⟨hget x (hax x (by simp)), ih (fun y hy => hax y (by simp [hy]))⟩
  have := sumL_allIdx_delta (R := R) (axes.map (fun x => shape.getD x 1)) (getAxes idx axes) (fun _ => ψ idx)
  rw [this, if_pos (mem_allIdx_of_valid _ _ hvalid)]

end

/-! ### classical side: records and conditions -/

/-- a repeated key appends a new record instance and leaves the earlier ones alone -/
theorem C02_record_append_get (r : Records) (k : String) (v : List Nat) :
    recGet (recAppend r k v) k = recGet r k ++ [v] := by
  unfold recAppend recGet
  by_cases h : r.any (·.1 == k) = true
  · rw [if_pos h]
    induction r with
    | nil => simp at h
    | cons p ps ih =>
      by_cases hp : (p.1 == k) = true
      · have hpk : p.1 = k := by simpa using hp
        simp [List.find?_cons, hp, hpk]
      · have hp' : (p.1 == k) = false := by simpa using hp
        simp only [List.any_cons, hp', Bool.false_or] at h
        simp only [List.map_cons, hp', Bool.false_eq_true, if_false, List.find?_cons, hp']
        exact ih h
  · rw [if_neg h]
    have hnone : r.find? (·.1 == k) = none := by
      rw [List.find?_eq_none]
      intro x hx hxk
      exact h (List.any_eq_true.mpr ⟨x, hx, hxk⟩)
    simp [List.find?_append, hnone]

end CirqVerif.Circ
