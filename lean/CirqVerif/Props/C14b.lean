/-!
# C14 — powers of Pauli combinations: the closed forms of `pow_pauli_combination`

`(a·1 + ax X + ay Y + az Z)ⁿ` is computed by `cirq.pow_pauli_combination` (and `LinearCombinationOfGates / Operations ** n`) from
closed forms in `v = √(ax² + ay² + az²)`.  Over any commutative ring: the recurrence that *is* multiplication in the algebra
(`σ² = w·1`) has exactly those closed forms when `v² = w` (general branch) and `aⁿ, n·aⁿ⁻¹` when `w = 0` (degenerate branch); and
`(a+v)ⁿ = (a−v)ⁿ` alone does not select the degenerate branch (`v² = −1`, `n = 4`), which is the defect repaired in this session.
The harness compares the implementation with matrix powers on the same cases.
-/
namespace CirqVerif.C14
variable {R : Type} [Lean.Grind.CommRing R]

/-- powers of `a·1 + σ` in an algebra where `σ² = w·1` (for `σ = ax X + ay Y + az Z`: `w = ax² + ay² + az²`), written `p·1 + q·σ`:
the recurrence is multiplication by `a·1 + σ` -/
def powPair (a w : R) : Nat → R × R
  | 0 => (1, 0)
  | n + 1 => let (p, q) := powPair a w n; (a * p + w * q, p + a * q)

/-- **`pow_pauli_combination`, general branch**: with `v² = w`, the identity coefficient of the `n`-th power is `((a+v)ⁿ + (a−v)ⁿ)/2` and
the factor of the Pauli part is `((a+v)ⁿ − (a−v)ⁿ)/(2v)` — stated without division -/
theorem C14_pow_pauli_closed_form (a w v : R) (hv : v * v = w) (n : Nat) :
    2 * (powPair a w n).1 = (a + v) ^ n + (a - v) ^ n ∧ 2 * v * (powPair a w n).2 = (a + v) ^ n - (a - v) ^ n := by
  induction n with
  | zero => simp [powPair]; constructor <;> grind
  | succ n ih =>
    obtain ⟨h1, h2⟩ := ih
    simp only [powPair]
    generalize (powPair a w n).1 = p at *
    generalize (powPair a w n).2 = q at *
    constructor <;> grind

/-- `k·x` as repeated addition -/
def natMul : Nat → R → R
  | 0, _ => 0
  | k + 1, x => natMul k x + x

theorem natMul_mul (k : Nat) (x y : R) : natMul k (x * y) = x * natMul k y := by
  induction k with
  | zero => simp [natMul]; grind
  | succ k ih => simp only [natMul, ih]; grind

/-- **degenerate branch** (`w = 0`, e.g. `X + iY`): the power is `aⁿ·1 + n·aⁿ⁻¹·σ` -/
theorem C14_pow_pauli_degenerate (a : R) (n : Nat) :
    (powPair a 0 (n + 1)).1 = a ^ (n + 1) ∧ (powPair a 0 (n + 1)).2 = natMul (n + 1) (a ^ n) := by
  induction n with
  | zero => simp [powPair, natMul]; constructor <;> grind
  | succ n ih =>
    obtain ⟨h1, h2⟩ := ih
    have hs : powPair a 0 (n + 1 + 1) = (a * (powPair a 0 (n + 1)).1 + 0 * (powPair a 0 (n + 1)).2, (powPair a 0 (n + 1)).1 + a * (powPair a 0 (n + 1)).2) := rfl
    rw [hs, h1, h2]
    constructor
    · grind
    · have := natMul_mul (n + 1) a (a ^ n)
      simp only [natMul] at this ⊢
      grind

/-- the two cases are different things: `(a+v)ⁿ = (a−v)ⁿ` does not make the Pauli part vanish-free — over ℤ[i]-like rings `(1+i)⁴ = (1−i)⁴`
although `v = i ≠ 0`; here: with `v² = -1`, the fourth power of `1 + σ` has no `σ` part, while the degenerate formula would give `4` -/
theorem C14_pow_pauli_i4 : (powPair (1 : R) (-1) 4).2 = 0 ∧ (powPair (1 : R) (-1) 4).1 = -4 := by
  simp only [powPair]; constructor <;> grind

end CirqVerif.C14
