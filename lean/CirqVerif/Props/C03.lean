import CirqVerif.Proofs.GateDocs
/-!
# C03 — property theorems: documented closed forms = eigen-decomposition the code carries

For every exponent `t` and global shift `s` (elements of any commutative ring `A` with a half), over any
commutative ring of scalars with a lawful phase map (`Lawful E`; in particular ℂ with `ph x = e^{iπx}`),
the matrix printed in the docstring equals `Σₖ e^{iπ t(θₖ+s)} Pₖ` for the (angle, projector) table that the
generated obligations (`Obligations/C03.lean`, re-decided on every run) show to be *the table the running
code returns from `_eigen_components()`*.
-/
namespace CirqVerif.GateDocs
variable {A R : Type} [Lean.Grind.CommRing A] [Lean.Grind.CommRing R]

theorem C03_XPowGate_doc (E : Env A R) (h : Lawful E) (t s : A) : xpow E t s = eigenDoc E (xpowComps E 0 1) t s := xpow_eq_eigen E h t s
theorem C03_YPowGate_doc (E : Env A R) (h : Lawful E) (t s : A) : ypow E t s = eigenDoc E (ypowComps E 0 1) t s := ypow_eq_eigen E h t s
theorem C03_ZPowGate_doc (E : Env A R) (h : Lawful E) (t s : A) : zpow E t s = eigenDoc E (zpowComps 0 1) t s := zpow_eq_eigen E h t s
theorem C03_HPowGate_doc (E : Env A R) (h : Lawful E) (t s : A) : hpow E t s = eigenDoc E (hpowComps E 0 1) t s := hpow_eq_eigen E h t s
theorem C03_CZPowGate_doc (E : Env A R) (h : Lawful E) (t s : A) : czpow E t s = eigenDoc E (czpowComps 0 1) t s := czpow_eq_eigen E h t s
theorem C03_ZZPowGate_doc (E : Env A R) (h : Lawful E) (t s : A) : zzpow E t s = eigenDoc E (zzpowComps 0 1) t s := zzpow_eq_eigen E h t s
theorem C03_SwapPowGate_doc (E : Env A R) (h : Lawful E) (t s : A) : swappow E t s = eigenDoc E (swappowComps E 0 1) t s := swappow_eq_eigen E h t s
theorem C03_XXPowGate_doc (E : Env A R) (h : Lawful E) (t s : A) : xxpow E t s = eigenDoc E (xxpowComps E 0 1) t s := xxpow_eq_eigen E h t s
theorem C03_YYPowGate_doc (E : Env A R) (h : Lawful E) (t s : A) : yypow E t s = eigenDoc E (yypowComps E 0 1) t s := yypow_eq_eigen E h t s

end CirqVerif.GateDocs
