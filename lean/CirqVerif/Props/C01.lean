import CirqVerif.Proofs.Sim
import CirqVerif.Proofs.Tensor
/-!
# C01 — property theorems (reference semantics of unitary simulation)
-/
namespace CirqVerif

/-- **The interpreter the implementation is compared with computes the ordered product**: reading the
final array of `runArr` equals folding the local operators of the circuit, in circuit order, over the
initial state (`applyOps`), on every valid basis index, for every register shape (qubits and qudits),
every circuit and every initial array. -/
theorem C01_interpreter_is_ordered_product {R : Type} [Add R] [Mul R] [OfNat R 0] [Inhabited R]
    (shape : List Nat) (ops : List (ArrOp R)) (arr : Array R) (idx : Idx) (h : ValidIdx shape idx) :
    stateOfArray shape (runArr shape arr ops) idx
      = applyOps (ops.map (fun op =>
          (matOfArray (op.axes.map (fun a => shape.getD a 1)) op.matrix,
           op.axes.map (fun a => shape.getD a 1), op.axes))) (stateOfArray shape arr) idx :=
  runArr_refines shape ops arr idx h

/-- **Functoriality** (two operations on the same axes compose to their matrix product) -/
theorem C01_apply_comp {R : Type} [Lean.Grind.CommRing R] (U V : Mat R) (dims axes : List Nat)
    (ψ : State R) (idx : Idx) (hn : axes.Nodup) (hlt : ∀ a ∈ axes, a < idx.length)
    (hl : dims.length = axes.length) :
    applyOp U dims axes (applyOp V dims axes ψ) idx = applyOp (matMul dims U V) dims axes ψ idx :=
  applyOp_comp U V dims axes ψ idx hn hlt hl

/-- **Locality**: operations on disjoint wires commute, so the order of operations within a moment
(and any reordering that keeps operations sharing a wire in order) does not change the result. -/
theorem C01_apply_comm {R : Type} [Lean.Grind.CommRing R] (U V : Mat R) (dU aU dV aV : List Nat)
    (ψ : State R) (idx : Idx) (hd : ∀ a ∈ aU, a ∉ aV) :
    applyOp U dU aU (applyOp V dV aV ψ) idx = applyOp V dV aV (applyOp U dU aU ψ) idx :=
  applyOp_comm U V dU aU dV aV ψ idx hd

/-- **Linearity** in the initial state (basis index / product state / full vector are the same map) -/
theorem C01_apply_linear {R : Type} [Lean.Grind.CommRing R] (U : Mat R) (dims axes : List Nat)
    (c : R) (ψ φ : State R) (idx : Idx) :
    applyOp U dims axes (fun i => c * ψ i + φ i) idx
      = c * applyOp U dims axes ψ idx + applyOp U dims axes φ idx := by
  have h1 := applyOp_add U dims axes (fun i => c * ψ i) φ idx
  have h2 := applyOp_smul U dims axes c ψ idx
  rw [h1, h2]

end CirqVerif
