import CirqVerif.Props.C12Terminal
import CirqVerif.Props.C12
/-!
# C12 — the two-repetition theorem, for the loops of the unrolling specification

`Props/C12Terminal` is about abstract lists.  Here it is instantiated with the specification `unrollCircuit`: for a circuit
that contains a sub-circuit operation repeated `r` times (with or without repetition ids), what the terminal-measurement
questions see of the unrolled form — the qubits of every operation and whether it is a measurement — is
`before ++ (body repeated r times) ++ after`, with the same `before`, `body`, `after` for every `r`.  Hence
`C12_loop_terminal_two_repetitions`: `r + 2` repetitions answer as two.
-/
namespace CirqVerif.C12

/-- what the terminal-measurement questions see of an operation -/
def viewF (o : FlatOp) : List Nat × Bool := (o.qubits, o.mkey.isSome)
def viewR (o : RawOp) : List Nat × Bool := (o.qubits, o.mkey.isSome)

theorem allTerm_map {α β : Type} (qs : α → List Nat) (m : α → Bool) (qs' : β → List Nat) (m' : β → Bool) (f : α → β)
    (hq : ∀ a, qs' (f a) = qs a) (hm : ∀ a, m' (f a) = m a) (l t : List α) :
    allTerm qs' m' (l.map f) (t.map f) = allTerm qs m l t := by
  induction l with
  | nil => rfl
  | cons o rest ih =>
    have hd : ∀ p, disj qs' (f o) (f p) = disj qs o p := by intro p; simp [disj, hq]
    simp only [List.map_cons, allTerm, ih, hm, ← List.map_append, List.all_map, Function.comp_def, hd]

theorem anyTerm_map {α β : Type} (qs : α → List Nat) (m : α → Bool) (qs' : β → List Nat) (m' : β → Bool) (f : α → β)
    (hq : ∀ a, qs' (f a) = qs a) (hm : ∀ a, m' (f a) = m a) (l t : List α) :
    anyTerm qs' m' (l.map f) (t.map f) = anyTerm qs m l t := by
  induction l with
  | nil => rfl
  | cons o rest ih =>
    have hd : ∀ p, disj qs' (f o) (f p) = disj qs o p := by intro p; simp [disj, hq]
    simp only [List.map_cons, anyTerm, ih, hm, ← List.map_append, List.all_map, Function.comp_def, hd]

/-- the scoping pass does not change what the questions see -/
theorem scopePassS_view (measured : List (Key × List Stamp)) (ops : List RawOp) :
    (scopePassS measured ops).map viewF = ops.map viewR := by
  induction ops generalizing measured with
  | nil => rfl
  | cons o os ih =>
    simp only [scopePassS, List.map_cons, ih, viewF, viewR]
    cases o.mkey <;> rfl

/-- a repeated body, seen by the questions: the same view once per repetition -/
theorem flatMap_const_view {ι : Type} (idx : List ι) (f : ι → List RawOp) (b : List (List Nat × Bool))
    (h : ∀ i, (f i).map viewR = b) : (idx.flatMap f).map viewR = rep idx.length b := by
  induction idx with
  | nil => rfl
  | cons i is ih => simp only [List.flatMap_cons, List.map_append, h, ih, List.length_cons, rep]

/-- one run of the body of a sub-circuit operation, as the questions see it -/
def loopBodyView (fuel : Nat) (pos : List Nat) (body : List (List Node)) (qmap : List (Nat × Nat)) : List (List Nat × Bool) :=
  ((body.flatten.zipIdx).flatMap (fun (n, i) => rawNode fuel (pos ++ [i]) n)).map
    (fun o => (o.qubits.map (assocD qmap), o.mkey.isSome))

/-- a sub-circuit operation repeated `n + 1` times (no repetition ids), seen by the questions: its body `n + 1` times -/
theorem rawCO_view (fuel : Nat) (pos : List Nat) (body : List (List Node)) (n : Nat) (qmap : List (Nat × Nat))
    (kmap : List (String × String)) (pp : List String) :
    (rawCO (fuel + 1) pos (.mk body ((n : Int) + 1) qmap kmap none pp)).map viewR
      = rep (n + 1) (loopBodyView fuel pos body qmap) := by
  have hne : ((n : Int) + 1 = 0) = False := by simp; omega
  have hlt : decide ((n : Int) + 1 < 0) = false := by simp; omega
  have hlen : (List.range ((n : Int) + 1).natAbs).length = n + 1 := by
    simp only [List.length_range]; omega
  simp only [rawCO, hne, if_false, hlt]
  rw [← hlen]
  apply flatMap_const_view
  intro k
  simp [loopBodyView, viewR, Function.comp_def]

/-- the view of the whole unrolled circuit `pre ++ [[loop]] ++ post`: fixed parts around the repeated body -/
theorem unroll_view (f : Nat) (pre post : List (List Node)) (body : List (List Node)) (qmap : List (Nat × Nat))
    (kmap : List (String × String)) (pp : List String) :
    ∃ P Q B : List (List Nat × Bool), ∀ k : Nat,
      (unrollCircuit (f + 1) (pre ++ [[Node.sub (.mk body ((k : Int) + 1) qmap kmap none pp) []]] ++ post)).map viewF
        = P ++ rep (k + 1) B ++ Q := by
  refine ⟨(pre.flatten.zipIdx.flatMap (fun (n, i) => rawNode (f + 1) [i] n)).map viewR,
    ((post.flatten.zipIdx (pre.flatten.length + 1)).flatMap (fun (n, i) => rawNode (f + 1) [i] n)).map viewR,
    loopBodyView f [pre.flatten.length] body qmap, ?_⟩
  intro k
  unfold unrollCircuit
  rw [scopePassS_view]
  have hflat : (pre ++ [[Node.sub (.mk body ((k : Int) + 1) qmap kmap none pp) []]] ++ post).flatten
      = pre.flatten ++ [Node.sub (.mk body ((k : Int) + 1) qmap kmap none pp) []] ++ post.flatten := by
    simp
  rw [hflat, List.zipIdx_append, List.zipIdx_append]
  simp only [List.flatMap_append, List.map_append, List.zipIdx_cons, List.zipIdx_nil, List.flatMap_cons, List.flatMap_nil,
    List.append_nil, List.length_append, List.length_cons, List.length_nil, Nat.zero_add]
  congr 2
  -- the loop itself
  have := rawCO_view f [pre.flatten.length] body k qmap kmap pp
  simp only [rawNode, List.map_map]
  rw [← this]
  simp [viewR, Function.comp_def]

/-- **the terminal-measurement questions on the unrolled form of a circuit with a loop: `n + 3` repetitions answer as
two** (`measurementsTerminal` is what `Circuit.are_all_measurements_terminal` / `are_any_measurements_terminal` are
compared with on every run) -/
theorem C12_loop_terminal_two_repetitions (f : Nat) (pre post : List (List Node)) (body : List (List Node))
    (qmap : List (Nat × Nat)) (kmap : List (String × String)) (pp : List String) (n : Nat) :
    measurementsTerminal (f + 1) (pre ++ [[Node.sub (.mk body (((n + 2 : Nat) : Int) + 1) qmap kmap none pp) []]] ++ post)
      = measurementsTerminal (f + 1) (pre ++ [[Node.sub (.mk body (((1 : Nat) : Int) + 1) qmap kmap none pp) []]] ++ post) := by
  obtain ⟨P, Q, B, h⟩ := unroll_view f pre post body qmap kmap pp
  have hall : ∀ l : List FlatOp, allTerm FlatOp.qubits (fun o => o.mkey.isSome) l []
      = allTerm Prod.fst Prod.snd (l.map viewF) [] := by
    intro l
    exact (allTerm_map FlatOp.qubits (fun o => o.mkey.isSome) Prod.fst Prod.snd viewF (fun _ => rfl) (fun _ => rfl) l []).symm
  have hany : ∀ l : List FlatOp, anyTerm FlatOp.qubits (fun o => o.mkey.isSome) l []
      = anyTerm Prod.fst Prod.snd (l.map viewF) [] := by
    intro l
    exact (anyTerm_map FlatOp.qubits (fun o => o.mkey.isSome) Prod.fst Prod.snd viewF (fun _ => rfl) (fun _ => rfl) l []).symm
  unfold measurementsTerminal
  simp only [hall, hany, h (n + 2), h 1]
  rw [C12_all_terminal_two_repetitions Prod.fst Prod.snd P B Q (n + 1),
    C12_any_terminal_two_repetitions Prod.fst Prod.snd P B Q (n + 1)]

/-- one repetition is not enough: a body `X(q0); measure(q0)` is all-terminal once, not twice (and twice is as thrice) -/
example :
    measurementsTerminal 3 [[.sub (.mk [[.op 1 [0] none [] false], [.op 2 [0] (some { path := [], name := "m" }) [] false]] 1 [] [] none []) []]] = (true, true)
    ∧ measurementsTerminal 3 [[.sub (.mk [[.op 1 [0] none [] false], [.op 2 [0] (some { path := [], name := "m" }) [] false]] 2 [] [] none []) []]] = (false, true)
    ∧ measurementsTerminal 3 [[.sub (.mk [[.op 1 [0] none [] false], [.op 2 [0] (some { path := [], name := "m" }) [] false]] 0 [] [] none []) []]] = (true, false) := by
  simp [measurementsTerminal, unrollCircuit, rawNode, rawCO, scopePassS, allTerm, anyTerm, disj, List.range, List.range.loop,
    List.zipIdx]

end CirqVerif.C12
