import CirqVerif.Model.C13
/-!
# C13 — property theorems

The per-gate statements `tableau_rule_<g>` ("the update of every row pattern is `U P U†`") are obligations
on tables regenerated from the running code (`Obligations/C13.lean`).  Here: facts about the row semantics
they are stated in.
-/
namespace CirqVerif.C13
open CirqVerif

/-- the four single-qubit row patterns denote Hermitian unitaries (so rows are ± Pauli operators) -/
theorem C13_row_patterns_are_paulis :
    [(false, false), (true, false), (false, true), (true, true)].all (fun (x, z) =>
      QMat.dagger (pauliMat x z) == pauliMat x z && QMat.mul (pauliMat x z) (pauliMat x z) == QMat.eye 2) = true := by
  decide +kernel

/-- the `Y` row pattern is `i·X·Z` (the convention relating tableau bits to the Pauli matrix) -/
theorem C13_y_is_ixz :
    pauliMat true true = QMat.smul Q8.I (QMat.mul (pauliMat true false) (pauliMat false true)) := by
  decide +kernel

end CirqVerif.C13
