import CirqVerif.Model.C16
/-!
# C16 — property theorems about the wire-format cores (all lengths, all tables)
-/
namespace CirqVerif.C16

/-! ### bit packing -/

theorem bitsLE_zero (k : Nat) : bitsLE k 0 = List.replicate k false := by
  induction k with
  | zero => rfl
  | succ k ih => simp [bitsLE, ih, List.replicate_succ]

theorem bitsLE_byteLE (k : Nat) (bs : List Bool) (h : bs.length ≤ k) :
    bitsLE k (byteLE bs) = bs ++ List.replicate (k - bs.length) false := by
  induction k generalizing bs with
  | zero =>
    have : bs = [] := List.eq_nil_of_length_eq_zero (by omega)
    subst this; rfl
  | succ k ih =>
    cases bs with
    | nil => simpa [byteLE] using bitsLE_zero (k + 1)
    | cons b bs =>
      have hl : bs.length ≤ k := by simpa using h
      have hmod : ((if b then 1 else 0) + 2 * byteLE bs) % 2 = (if b then 1 else 0) := by cases b <;> simp <;> omega
      have hdiv : ((if b then 1 else 0) + 2 * byteLE bs) / 2 = byteLE bs := by cases b <;> simp <;> omega
      simp only [byteLE, bitsLE, hmod, hdiv, ih bs hl]
      cases b <;> simp

theorem packLE_spec (fuel : Nat) (bs : List Bool) (h : bs.length ≤ fuel) :
    ∃ p, (packLE fuel bs).flatMap (bitsLE 8) = bs ++ List.replicate p false := by
  induction fuel generalizing bs with
  | zero =>
    have : bs = [] := List.eq_nil_of_length_eq_zero (by omega)
    subst this; exact ⟨0, rfl⟩
  | succ fuel ih =>
    by_cases he : bs.isEmpty = true
    · have : bs = [] := by simpa using he
      subst this; exact ⟨0, by simp [packLE]⟩
    · have hne : bs.isEmpty = false := by simpa using he
      simp only [packLE, hne, Bool.false_eq_true, if_false, List.flatMap_cons]
      by_cases h8 : 8 ≤ bs.length
      · obtain ⟨p, hp⟩ := ih (bs.drop 8) (by simp; omega)
        refine ⟨p, ?_⟩
        have hl8 : (bs.take 8).length = 8 := by simp; omega
        rw [hp, bitsLE_byteLE 8 (bs.take 8) (by omega), hl8]
        simp only [Nat.sub_self, List.replicate_zero, List.append_nil]
        rw [← List.append_assoc, List.take_append_drop]
      · have hd : bs.drop 8 = [] := List.drop_eq_nil_of_le (by omega)
        have ht : bs.take 8 = bs := List.take_of_length_le (by omega)
        have hp : packLE fuel [] = [] := by cases fuel <;> simp [packLE]
        refine ⟨8 - bs.length, ?_⟩
        rw [hd, hp, ht, bitsLE_byteLE 8 bs (by omega)]
        simp

/-- **bit packing round-trips for every number of repetitions** -/
theorem C16_unpack_pack (bits : List Bool) : unpack (pack bits) bits.length = bits := by
  obtain ⟨p, hp⟩ := packLE_spec bits.length bits (Nat.le_refl _)
  simp [unpack, pack, hp]

/-- the packed form has ⌈n/8⌉ bytes, each below 256 -/
theorem byteLE_lt (bs : List Bool) : byteLE bs < 2 ^ bs.length := by
  induction bs with
  | nil => simp [byteLE]
  | cons b bs ih => simp only [byteLE, List.length_cons, Nat.pow_succ]; cases b <;> simp <;> omega

/-! ### result layout -/

/-- **storing a key's records per qubit and reading them back is the identity** (rectangular records) -/
theorem C16_fromCols_toCols (nq : Nat) (rows : List (List Bool)) (h : ∀ r ∈ rows, r.length = nq) :
    fromCols rows.length (toCols nq rows) = rows := by
  apply List.ext_getElem
  · simp [fromCols]
  · intro i h1 h2
    simp only [fromCols, List.getElem_map, List.getElem_range, toCols, List.map_map]
    have hr : (rows[i]).length = nq := h _ (List.getElem_mem _)
    apply List.ext_getElem
    · simp [hr]
    · intro j hj1 hj2
      simp only [List.getElem_map, List.getElem_range, Function.comp, column]
      have hi : i < rows.length := by simpa [fromCols] using h1
      simp [List.getD_eq_getElem?_getD, hi]
      have hj : j < (rows[i]).length := hj2
      simp [hj]

theorem toCols_length (nq : Nat) (rows : List (List Bool)) : ∀ c ∈ toCols nq rows, c.length = rows.length := by
  intro c hc
  simp only [toCols, List.mem_map, List.mem_range] at hc
  obtain ⟨i, _, rfl⟩ := hc
  simp [column]

/-- **results round-trip through the packed per-qubit layout**, any number of repetitions and qubits -/
theorem C16_decode_encode (nq : Nat) (rows : List (List Bool)) (h : ∀ r ∈ rows, r.length = nq) :
    decodeKey rows.length (encodeKey nq rows) = rows := by
  unfold decodeKey encodeKey
  rw [List.map_map]
  have : (toCols nq rows).map ((fun p => unpack p rows.length) ∘ pack) = toCols nq rows := by
    conv => rhs; rw [← List.map_id (toCols nq rows)]
    apply List.map_congr_left
    intro c hc
    have := toCols_length nq rows c hc
    simp only [Function.comp, id]
    rw [← this]; exact C16_unpack_pack c
  rw [this]
  exact C16_fromCols_toCols nq rows h

/-! ### constants table -/

variable {α : Type} [DecidableEq α]

theorem idxOf?_some_get (t : List α) (c : α) (i : Nat) (h : t.idxOf? c = some i) : t[i]? = some c := by
  induction t generalizing i with
  | nil => simp [List.idxOf?] at h
  | cons x xs ih =>
    by_cases hx : x = c
    · subst hx
      simp [List.idxOf?, List.findIdx?_cons] at h
      subst h; simp
    · have hne : (x == c) = false := by simpa using hx
      simp only [List.idxOf?, List.findIdx?_cons, hne] at h
      cases hr : List.findIdx? (· == c) xs with
      | none => simp [hr] at h
      | some j =>
        simp [hr] at h
        subst h
        have := ih j (by simpa [List.idxOf?] using hr)
        simpa using this

/-- the position returned for a constant holds that constant -/
theorem C16_intern_resolves (t : List α) (c : α) : (intern t c).1[(intern t c).2]? = some c := by
  unfold intern
  cases h : t.idxOf? c with
  | some i => simpa using idxOf?_some_get t c i h
  | none => simp

/-- interning never moves what is already in the table -/
theorem C16_intern_extends (t : List α) (c : α) : ∃ ext, (intern t c).1 = t ++ ext := by
  unfold intern
  cases t.idxOf? c with
  | some i => exact ⟨[], by simp⟩
  | none => exact ⟨[c], rfl⟩

theorem internAll_extends (t : List α) (cs : List α) : ∃ ext, (internAll t cs).1 = t ++ ext := by
  induction cs generalizing t with
  | nil => exact ⟨[], by simp [internAll]⟩
  | cons c cs ih =>
    obtain ⟨e1, h1⟩ := C16_intern_extends t c
    obtain ⟨e2, h2⟩ := ih (intern t c).1
    refine ⟨e1 ++ e2, ?_⟩
    simp only [internAll]
    rw [h2, h1, List.append_assoc]

/-- **shared constants never mix up operations**: resolving the positions handed out for a sequence of constants
against the final table returns exactly that sequence, whatever the table held before and however often constants repeat -/
theorem C16_internAll_resolves (t : List α) (cs : List α) :
    resolve (internAll t cs).1 (internAll t cs).2 = cs.map some := by
  induction cs generalizing t with
  | nil => simp [internAll, resolve]
  | cons c cs ih =>
    simp only [internAll, resolve, List.map_cons]
    have hrest := ih (intern t c).1
    simp only [resolve] at hrest
    rw [hrest]
    congr 1
    obtain ⟨ext, hext⟩ := internAll_extends (intern t c).1 cs
    have hres := C16_intern_resolves t c
    rw [hext]
    have hlt : (intern t c).2 < (intern t c).1.length := by
      cases hg : (intern t c).1[(intern t c).2]? with
      | none => rw [hg] at hres; cases hres
      | some v => exact (List.getElem?_eq_some_iff.mp hg).1
    rw [List.getElem?_append_left hlt]
    exact hres

/-- a constant already present is not stored again -/
theorem C16_intern_nodup (t : List α) (c : α) (h : t.Nodup) : (intern t c).1.Nodup := by
  unfold intern
  cases hi : t.idxOf? c with
  | some i => simpa using h
  | none =>
    have hnot : c ∉ t := by
      intro hm
      have : t.idxOf? c ≠ none := by
        simp only [List.idxOf?, ne_eq, List.findIdx?_eq_none_iff]
        intro hall
        have := hall c hm
        simp at this
      exact this hi
    simp only
    rw [List.nodup_append]
    refine ⟨h, by simp, ?_⟩
    intro a ha b hb
    simp at hb; subst hb
    intro hab; subst hab; exact hnot ha

example : pack [true, false, true, true, false, false, false, false, true] = [13, 1] := by decide
example : unpack [13, 1] 9 = [true, false, true, true, false, false, false, false, true] := by decide
example : (internAll ([] : List Nat) [7, 8, 7, 9, 8]) = ([7, 8, 9], [0, 1, 0, 2, 1]) := by decide

end CirqVerif.C16
