import CirqVerif.Proofs.C05
/-!
# C05 — property theorems: circuits stay well-formed and lose/duplicate nothing under any edit

All theorems quantify over **every** circuit, op tree (operations and intact moments), insertion
index (negative, past the end) and all five insertion strategies, with or without the placement cache.
-/
namespace CirqVerif.C05

/-- **Conservation.** A successful `Circuit.insert` adds exactly the operations of the tree: the
operations of the result are a permutation of the old operations plus the inserted ones
(nothing lost, nothing duplicated), for every strategy, index and cache state. -/
theorem C05_insert_conserve (st st' : CState) (index : Int) (mops : List Mop) (s : Strategy) (k : Nat)
    (h : insert st index mops s = .ok (st', k)) :
    (allOps st'.moments).Perm (allOps st.moments ++ opsOfMops mops) := by
  unfold insert at h
  simp only at h
  split at h
  · split at h
    · cases h
    · rename_i ms pos hl
      simp only [Except.ok.injEq, Prod.mk.injEq] at h
      rw [← h.1]
      have := insertLatest_conserve _ _ _ _ _ hl
      rwa [batchesOf_flatten] at this
  · split at h
    · cases h
    · rename_i sf hf
      simp only [Except.ok.injEq, Prod.mk.injEq] at h
      rw [← h.1]
      have key := foldlM_except_inv insertBatch
        (fun (acc : Loop) done => (allOps acc.ms).Perm (allOps st.moments ++ opsOfMops done.flatten))
        (by
          intro b a b' done hP hstep
          have := insertBatch_conserve _ _ _ hstep
          simp only [List.flatten_append, List.flatten_cons, List.flatten_nil, List.append_nil,
            opsOfMops_append]
          exact this.trans (by rw [← List.append_assoc]; exact List.Perm.append_right _ hP))
        _ _ sf [] (by simp) hf
      simp only [List.nil_append] at key
      rwa [batchesOf_flatten] at key

/-- **Well-formedness.** Inserting well-formed moments / operations into a circuit whose moments act
on pairwise disjoint qubits yields such a circuit again (or raises; it never silently overlaps). -/
theorem C05_insert_wf (st st' : CState) (index : Int) (mops : List Mop) (s : Strategy) (k : Nat)
    (h : insert st index mops s = .ok (st', k)) (hwf : circuitWF st.moments = true)
    (hm : ∀ mop ∈ mops, mopWF mop = true) : circuitWF st'.moments = true := by
  have hb : ∀ b ∈ batchesOf (if (s ≠ .earliest || normIndex st.moments.length index ≠ st.moments.length) = true
      then none else st.cache).isSome s mops, ∀ mop ∈ b, mopWF mop = true := by
    intro b hbm mop hmop
    apply hm
    rw [← batchesOf_flatten _ s mops]
    exact List.mem_flatten.mpr ⟨b, hbm, hmop⟩
  unfold insert at h
  simp only at h
  split at h
  · split at h
    · cases h
    · rename_i ms pos hl
      simp only [Except.ok.injEq, Prod.mk.injEq] at h
      rw [← h.1]
      unfold insertLatest at hl
      split at hl
      · cases hl
      · rename_i stf hf
        simp only [Except.ok.injEq, Prod.mk.injEq] at hl
        rw [← hl.1]
        refine foldlM_except_inv' (fun (st : Circuit × Int) mop => insertLatestOne st.1 _ st.2 mop)
          (fun acc => circuitWF acc.1 = true) (fun mop => mopWF mop = true)
          (by
            intro b a b' hP hQ hstep
            exact insertLatestOne_wf b.1 b'.1 _ b.2 b'.2 a (by simpa using hstep) hP hQ)
          _ _ stf hwf ?_ hf
        intro a ha
        obtain ⟨b, hb1, hb2⟩ := List.mem_flatten.mp ha
        exact hb b (by simpa using hb1) a hb2
  · split at h
    · cases h
    · rename_i sf hf
      simp only [Except.ok.injEq, Prod.mk.injEq] at h
      rw [← h.1]
      exact foldlM_except_inv' insertBatch (fun acc => circuitWF acc.ms = true)
        (fun b => ∀ mop ∈ b, mopWF mop = true)
        (by intro b a b' hP hQ hstep; exact insertBatch_wf _ _ _ hstep hP hQ)
        _ _ sf hwf hb hf

/-- what a caller may pass: operations act on distinct qubits, moments are well-formed
(Cirq's `Operation`/`Moment` constructors reject anything else) -/
def callWF : Call → Prop
  | .new mops _ | .append mops _ | .insert _ mops _ => ∀ mop ∈ mops, mopWF mop = true
  | .insertIntoRange ops _ _ => ∀ o ∈ ops, opWF o = true
  | .batchRemove _ => True
  | .batchReplace items => ∀ r ∈ items, opWF r.2.2 = true
  | .batchInsertInto items => ∀ r ∈ items, ∀ o ∈ r.2, opWF o = true
  | .batchInsert items => ∀ r ∈ items, ∀ mop ∈ r.2, mopWF mop = true
  | .clear _ _ => True
  | .setItem _ m => momentWF m = true
  | .delItem _ => True
  | .imul _ => True

theorem append_wf (st st' : CState) (mops : List Mop) (s : Strategy) (h : append st mops s = .ok st')
    (hwf : circuitWF st.moments = true) (hm : ∀ mop ∈ mops, mopWF mop = true) :
    circuitWF st'.moments = true := by
  unfold append at h
  simp only [bind, Except.bind, pure, Except.pure] at h
  split at h
  · cases h
  · rename_i r hr
    simp only [Except.ok.injEq] at h
    subst h
    exact C05_insert_wf st r.1 _ mops s r.2 hr hwf hm

/-- one public mutating call keeps the circuit well-formed -/
theorem C05_call_wf (st st' : CState) (c : Call) (ret : Option Nat)
    (h : applyCall st c = .ok (st', ret)) (hwf : circuitWF st.moments = true) (hc : callWF c) :
    circuitWF st'.moments = true := by
  cases c with
  | new mops s =>
    simp only [applyCall, Except.map] at h
    split at h
    · cases h
    · rename_i r hr
      simp only [Except.ok.injEq, Prod.mk.injEq] at h
      rw [← h.1]
      unfold newCircuit at hr
      split at hr
      · simp only [Except.ok.injEq] at hr; subst hr; rfl
      · split at hr
        · simp only [Except.ok.injEq] at hr; subst hr
          refine circuitWF_of_mem _ ?_
          intro m hm
          obtain ⟨mop, hmop, hx⟩ := List.mem_filterMap.mp hm
          cases mop with
          | op _ => simp at hx
          | mom m' => simp only [Option.some.injEq] at hx; subst hx; exact hc _ hmop
        · split at hr
          · exact loadEarliest_wf mops r hr hc
          · exact append_wf {} r mops s hr rfl hc
  | append mops s =>
    simp only [applyCall, Except.map] at h
    split at h
    · cases h
    · rename_i r hr
      simp only [Except.ok.injEq, Prod.mk.injEq] at h
      rw [← h.1]; exact append_wf st r mops s hr hwf hc
  | insert i mops s =>
    simp only [applyCall, Except.map] at h
    split at h
    · cases h
    · rename_i r hr
      simp only [Except.ok.injEq, Prod.mk.injEq] at h
      rw [← h.1]; exact C05_insert_wf st r.1 i mops s r.2 hr hwf hc
  | insertIntoRange ops a b =>
    simp only [applyCall, Except.map] at h
    split at h
    · cases h
    · rename_i r hr
      simp only [Except.ok.injEq, Prod.mk.injEq] at h
      rw [← h.1]
      unfold insertIntoRange at hr
      split at hr
      · cases hr
      · split at hr
        · cases hr
        · rename_i ms rest hl
          obtain ⟨h1, h2⟩ := intoRangeLoop_wf _ _ _ _ _ _ hl hwf hc
          simp only at hr
          split at hr
          · simp only [Except.ok.injEq] at hr; rw [← hr]; exact h1
          · refine C05_insert_wf _ r.1 _ _ _ r.2 hr h1 ?_
            intro mop hmop
            obtain ⟨o, ho, rfl⟩ := List.mem_map.mp hmop
            exact h2 o ho
  | batchRemove items =>
    simp only [applyCall, Except.map, batchRemove] at h
    split at h
    · cases h
    · rename_i r hr
      simp only [Except.ok.injEq, Prod.mk.injEq] at h
      rw [← h.1]
      split at hr
      · cases hr
      · rename_i ms hms
        simp only [Except.ok.injEq] at hr; subst hr
        exact foldlM_except_inv' removeStep (fun ms => circuitWF ms = true) (fun _ => True)
          (fun b a b' hP _ hs => removeStep_wf b b' a hs hP) items _ ms hwf (fun _ _ => trivial) hms
  | batchReplace items =>
    simp only [applyCall, Except.map, batchReplace] at h
    split at h
    · cases h
    · rename_i r hr
      simp only [Except.ok.injEq, Prod.mk.injEq] at h
      rw [← h.1]
      split at hr
      · cases hr
      · rename_i ms hms
        simp only [Except.ok.injEq] at hr; subst hr
        exact foldlM_except_inv' replaceStep (fun ms => circuitWF ms = true) (fun r => opWF r.2.2 = true)
          (fun b a b' hP hQ hs => replaceStep_wf b b' a hs hP hQ) items _ ms hwf hc hms
  | batchInsertInto items =>
    simp only [applyCall, Except.map, batchInsertInto] at h
    split at h
    · cases h
    · rename_i r hr
      simp only [Except.ok.injEq, Prod.mk.injEq] at h
      rw [← h.1]
      split at hr
      · cases hr
      · rename_i ms hms
        simp only [Except.ok.injEq] at hr; subst hr
        exact foldlM_except_inv' insertIntoStep (fun ms => circuitWF ms = true)
          (fun r => ∀ o ∈ r.2, opWF o = true)
          (fun b a b' hP hQ hs => insertIntoStep_wf b b' a hs hP hQ) items _ ms hwf hc hms
  | batchInsert items =>
    simp only [applyCall, Except.map, batchInsert] at h
    split at h
    · cases h
    · rename_i r hr
      simp only [Except.ok.injEq, Prod.mk.injEq] at h
      rw [← h.1]
      split at hr
      · cases hr
      · rename_i acc hacc
        simp only [Except.ok.injEq] at hr; subst hr
        -- every group's trees come from `items`
        have hgroups : ∀ g ∈ groupByIndex (stableSort items), ∀ t ∈ g.2, ∀ mop ∈ t, mopWF mop = true := by
          have hsorted : ∀ r ∈ stableSort items, ∀ mop ∈ r.2, mopWF mop = true := by
            unfold stableSort
            suffices hh : ∀ (l acc : List (Int × List Mop)),
                (∀ r ∈ acc, ∀ mop ∈ r.2, mopWF mop = true) → (∀ r ∈ l, ∀ mop ∈ r.2, mopWF mop = true) →
                ∀ r ∈ l.foldl (fun acc x =>
                  acc.takeWhile (fun y => y.1 ≤ x.1) ++ x :: acc.dropWhile (fun y => y.1 ≤ x.1)) acc,
                  ∀ mop ∈ r.2, mopWF mop = true from hh items [] (by simp) hc
            intro l
            induction l with
            | nil => intro acc ha _; exact ha
            | cons x xs ih =>
              intro acc ha hl
              simp only [List.foldl_cons]
              apply ih
              · intro r hr
                simp only [List.mem_append, List.mem_cons] at hr
                rcases hr with hr | rfl | hr
                · exact ha r ((List.takeWhile_sublist _).subset hr)
                · exact hl _ (by simp)
                · exact ha r ((List.dropWhile_sublist _).subset hr)
              · intro r hr; exact hl r (by simp [hr])
          generalize stableSort items = l at hsorted
          induction l with
          | nil => simp [groupByIndex]
          | cons x xs ih =>
            obtain ⟨i, t⟩ := x
            have ihx := ih (fun r hr => hsorted r (by simp [hr]))
            have hx := hsorted (i, t) (by simp)
            simp only [groupByIndex]
            split
            · rename_i j ts more heq
              rw [heq] at ihx
              split
              · intro g hg
                rcases List.mem_cons.mp hg with rfl | hg
                · intro t' ht'
                  rcases List.mem_cons.mp ht' with rfl | ht'
                  · exact hx
                  · exact ihx (j, ts) (by simp) t' ht'
                · exact ihx g (by simp [hg])
              · intro g hg
                rcases List.mem_cons.mp hg with rfl | hg
                · intro t' ht'; simp only [List.mem_singleton] at ht'; subst ht'; exact hx
                · exact ihx g hg
            · intro g hg
              simp only [List.mem_singleton] at hg; subst hg
              intro t' ht'; simp only [List.mem_singleton] at ht'; subst ht'; exact hx
        exact foldlM_except_inv' batchInsertStep (fun acc => circuitWF acc.1.moments = true)
          (fun g => ∀ t ∈ g.2, ∀ mop ∈ t, mopWF mop = true)
          (by
            intro b a b' hP hQ hs
            unfold batchInsertStep at hs
            simp only at hs
            split at hs
            · cases hs
            · rename_i cur next hins
              simp only [Except.ok.injEq] at hs
              rw [← hs]
              refine C05_insert_wf _ cur _ _ _ next hins hP ?_
              intro mop hmop
              obtain ⟨t, ht, hmt⟩ := List.mem_flatten.mp hmop
              exact hQ t (by simpa using ht) mop hmt)
          _ _ acc hwf hgroups hacc
  | clear qs idxs =>
    simp only [applyCall, Except.ok.injEq, Prod.mk.injEq] at h
    rw [← h.1]; exact clear_wf st qs idxs hwf
  | setItem i m =>
    simp only [applyCall, Except.map, setItem, bind, Except.bind, pure, Except.pure] at h
    split at h
    · cases h
    · rename_i r hr
      simp only [Except.ok.injEq, Prod.mk.injEq] at h
      rw [← h.1]
      split at hr
      · cases hr
      · simp only [Except.ok.injEq] at hr; subst hr
        exact circuitWF_set _ _ _ hwf hc
  | delItem i =>
    simp only [applyCall, Except.map, delItem, bind, Except.bind, pure, Except.pure] at h
    split at h
    · cases h
    · rename_i r hr
      simp only [Except.ok.injEq, Prod.mk.injEq] at h
      rw [← h.1]
      split at hr
      · cases hr
      · simp only [Except.ok.injEq] at hr; subst hr
        exact circuitWF_sub _ _ hwf (fun m hm => (List.eraseIdx_sublist _ _).subset hm)
  | imul n =>
    simp only [applyCall, Except.ok.injEq, Prod.mk.injEq] at h
    rw [← h.1]
    refine circuitWF_of_mem _ ?_
    intro m hm
    simp only [imul, List.mem_flatten, List.mem_replicate] at hm
    obtain ⟨l, ⟨_, rfl⟩, hml⟩ := hm
    exact circuitWF_mem _ hwf m hml

/-- **Every reachable circuit is well-formed**: after any finite history of public mutating calls
(whatever the strategies, indices, batch edits, deletions, repetitions) every moment holds
operations on pairwise disjoint qubits. -/
theorem C05_history_wf (calls : List Call) (st st' : CState) (h : runCalls st calls = .ok st')
    (hwf : circuitWF st.moments = true) (hc : ∀ c ∈ calls, callWF c) : circuitWF st'.moments = true := by
  unfold runCalls at h
  exact foldlM_except_inv' (fun st c => (applyCall st c).map (·.1)) (fun st => circuitWF st.moments = true) callWF
    (by
      intro b a b' hP hQ hs
      simp only [Except.map] at hs
      split at hs
      · cases hs
      · rename_i r hr
        simp only [Except.ok.injEq] at hs
        subst hs
        exact C05_call_wf b r.1 a r.2 hr hP hQ)
    calls st st' hwf hc h

/-- **`earliest_available_moment` is the backward scan it documents**: the returned index `r`
is at most the (clamped) end index, no moment in `[r, end)` conflicts with the operation (qubit
overlap, measurement-key or control-key dependency), and if `r > 0` the moment just before does. -/
theorem C05_earliest_available_spec (c : Circuit) (op : Op) (e : Nat) :
    let r := earliestAvailable c op e
    let e' := min e c.length
    r ≤ e' ∧ (∀ i, r ≤ i → i < e' → ∀ m, c[i]? = some m → conflicts m op = false)
      ∧ (0 < r → ∀ m, c[r - 1]? = some m → conflicts m op = true) := by
  intro r e'
  -- facts about takeWhile on the reversed prefix
  let l := c.take e'
  have hl : l.length = e' := by simp [l, e']
  let t := l.reverse.takeWhile (fun m => !conflicts m op)
  have hr : r = e' - t.length := rfl
  have htl : t.length ≤ e' := by
    have := (List.takeWhile_sublist (p := fun m => !conflicts m op) (l := l.reverse)).length_le
    simpa [hl] using this
  have hget : ∀ i, i < e' → c[i]? = l.reverse[e' - 1 - i]? := by
    intro i hi
    rw [List.getElem?_reverse (by rw [hl]; omega), hl]
    have : e' - 1 - (e' - 1 - i) = i := by omega
    rw [this]; simp [l, List.getElem?_take, hi]
  have hpre : ∀ j, j < t.length → l.reverse[j]? = t[j]? := by
    intro j hj
    have hp : t <+: l.reverse := List.takeWhile_prefix _
    obtain ⟨s, hs⟩ := hp
    rw [← hs, List.getElem?_append_left hj]
  refine ⟨by omega, ?_, ?_⟩
  · intro i hri hie m hm
    rw [hget i hie, hpre _ (by omega)] at hm
    have hmem : m ∈ t := List.mem_of_getElem? hm
    have := mem_takeWhile_holds _ _ _ hmem
    simpa using this
  · intro hr0 m hm
    have hlt : t.length < e' := by omega
    rw [hget (r - 1) (by omega)] at hm
    have hidx : e' - 1 - (r - 1) = t.length := by omega
    rw [hidx] at hm
    have := takeWhile_next_fails (fun m => !conflicts m op) l.reverse m hm
    simpa using this

/-- `_group_into_moment_compatible`: "the output, if flattened, will equal the input" — grouping
never drops, duplicates or reorders an operation or moment. -/
theorem C05_grouping_flatten (mops : List Mop) : (groupIntoMomentCompatible mops).flatten = mops :=
  groupIntoMomentCompatible_flatten mops

/-- non-vacuity: a concrete mid-circuit insertion satisfies the hypotheses and succeeds -/
example :
    let a : Op := { id := 1, qubits := [0], mkeys := [], ckeys := [] }
    let b : Op := { id := 2, qubits := [0, 1], mkeys := [0], ckeys := [] }
    let c : Op := { id := 3, qubits := [1], mkeys := [], ckeys := [0] }
    (insert { moments := [[a], [b]], cache := none } 1 [.op c, .mom [a]] .inline).isOk = true := by
  decide

end CirqVerif.C05
