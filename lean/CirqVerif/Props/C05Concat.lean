import CirqVerif.Proofs.C05Concat
/-!
# C05 — `concat_ragged` keeps circuits well-formed and order-preserving, for all circuits and alignments

Theorems about the model of Model/C05Concat (tied to `Circuit.concat_ragged` / `FrozenCircuit.concat_ragged` by the `concat`
stream of the harness, which compares the moment layout exactly): every operation is kept exactly once; the result has the
documented number of moments; on every shared wire — qubit, measurement key or control key — the first circuit's operations stay
strictly before the second's; no moment gets two operations on one qubit; and the overlap is maximal.
-/
namespace CirqVerif.C05

/-- **Conservation**: folding two circuits together keeps every operation, exactly once -/
theorem C05_concat2_conserves (a : Align) (c1 c2 : Circuit) : (allOps (concat2 a c1 c2)).Perm (allOps c1 ++ allOps c2) := by
  unfold concat2
  refine (overlay_perm _ _).trans ?_
  rw [pad_allOps, pad_allOps]

/-- **Length**: `max(n1, n2, n1 + n2 − overlap)` moments -/
theorem C05_concat2_length (a : Align) (c1 c2 : Circuit) :
    (concat2 a c1 c2).length = max (max c1.length c2.length) (c1.length + c2.length - overlapTime c1 c2 a) := by
  have hb : overlapTime c1 c2 a ≤ alignBound c1.length c2.length a := (foldl_min_le _ _).1
  have : alignBound c1.length c2.length a ≤ max c1.length c2.length := by
    cases a <;> simp [alignBound] <;> omega
  simp only [concat2, overlay_length, pad, List.length_append, List.length_replicate]
  omega

/-- **Order**: on every wire the two circuits share (a qubit, or a measurement / control key), everything of the first circuit
ends up in a strictly earlier moment than everything of the second.  Positions: moment `i` of `c1` lands at
`i + (s − n1)`, moment `j` of `c2` at `j + (n1 − s)` (truncated subtraction, `s` the overlap). -/
theorem C05_concat2_order (a : Align) (c1 c2 : Circuit) (i j : Nat) (m1 m2 : Moment) (w : Wire)
    (h1 : c1[i]? = some m1) (h2 : c2[j]? = some m2) (hw1 : w ∈ mWires m1) (hw2 : w ∈ mWires m2) :
    i + (overlapTime c1 c2 a - c1.length) < j + (c1.length - overlapTime c1 c2 a) := by
  have := overlapTime_le_collision c1 c2 a i j m1 m2 w h1 h2 hw1 hw2
  omega

/-- **Well-formedness**: the moment-wise union never puts two operations on one qubit into a moment (so the `Moment + Moment`
of the implementation cannot raise) -/
theorem C05_concat2_wf (a : Align) (c1 c2 : Circuit) (h1 : circuitWF c1 = true) (h2 : circuitWF c2 = true) :
    circuitWF (concat2 a c1 c2) = true := by
  apply circuitWF_of_mem
  intro m hm
  obtain ⟨k, hk, rfl⟩ := List.mem_iff_getElem.mp hm
  have hg : (concat2 a c1 c2)[k]?.getD [] = (concat2 a c1 c2)[k] := by simp [hk]
  rw [← hg, concat2_getD]
  apply momentWF_append
  · split
    · rfl
    · exact getD_wf c1 _ h1
  · split
    · rfl
    · exact getD_wf c2 _ h2
  · intro q hq1 hq2
    split at hq1
    · simp [mQubits] at hq1
    · split at hq2
      · simp [mQubits] at hq2
      · rename_i hk1 hk2
        generalize hi : k - (overlapTime c1 c2 a - c1.length) = i at hq1
        generalize hj : k - (c1.length - overlapTime c1 c2 a) = j at hq2
        cases hm1 : c1[i]? with
        | none => simp [hm1, mQubits] at hq1
        | some m1 =>
          cases hm2 : c2[j]? with
          | none => simp [hm2, mQubits] at hq2
          | some m2 =>
            simp only [hm1, hm2, Option.getD_some] at hq1 hq2
            have := C05_concat2_order a c1 c2 i j m1 m2 (0, q) hm1 hm2 (mem_mWires_of_qubit _ _ hq1) (mem_mWires_of_qubit _ _ hq2)
            omega

/-- the n-ary fold: all operations are kept … -/
theorem C05_concatRagged_conserves (a : Align) (cs : List Circuit) :
    (allOps (concatRagged a cs)).Perm (cs.flatMap allOps) := by
  cases cs with
  | nil => simp [concatRagged, allOps]
  | cons c rest =>
    simp only [concatRagged, List.flatMap_cons]
    induction rest generalizing c with
    | nil => simp
    | cons d ds ih =>
      simp only [List.foldl_cons, List.flatMap_cons]
      refine (ih (concat2 a c d)).trans ?_
      rw [← List.append_assoc]
      exact List.Perm.append_right _ (C05_concat2_conserves a c d)

/-- … and every moment of the result is well-formed -/
theorem C05_concatRagged_wf (a : Align) (cs : List Circuit) (h : ∀ c ∈ cs, circuitWF c = true) :
    circuitWF (concatRagged a cs) = true := by
  cases cs with
  | nil => simp [concatRagged, circuitWF]
  | cons c rest =>
    simp only [concatRagged]
    have hc := h c (by simp)
    have hr : ∀ d ∈ rest, circuitWF d = true := fun d hd => h d (by simp [hd])
    clear h
    induction rest generalizing c with
    | nil => simpa using hc
    | cons d ds ih =>
      simp only [List.foldl_cons]
      exact ih _ (C05_concat2_wf a c d hc (hr d (by simp))) (fun e he => hr e (by simp [he]))

/-- **Maximality**: the circuits are slid together as far as the alignment or some shared wire allows — either the overlap is
the alignment bound, or some wire used by moment `i` of `c1` and moment `j` of `c2` lands in adjacent moments -/
theorem C05_concat2_maximal (a : Align) (c1 c2 : Circuit) :
    overlapTime c1 c2 a = alignBound c1.length c2.length a
    ∨ ∃ w i j m1 m2, c1[i]? = some m1 ∧ c2[j]? = some m2 ∧ w ∈ mWires m1 ∧ w ∈ mWires m2
        ∧ overlapTime c1 c2 a + i + 1 = c1.length + j := overlapTime_tight c1 c2 a

/-- the premises are satisfiable and the overlap is a real one: `X(q0)` followed by `[Y(q1)], [Z(q0)]` overlaps by one moment -/
example : concat2 .left [[⟨1, [0], [], []⟩]] [[⟨2, [1], [], []⟩], [⟨3, [0], [], []⟩]]
    = [[⟨1, [0], [], []⟩, ⟨2, [1], [], []⟩], [⟨3, [0], [], []⟩]] := by decide

/-! ### `Circuit.zip` -/

/-- a zip that succeeds is well-formed -/
theorem C05_zip_wf (a : Align) (cs : List Circuit) (r : Circuit) (h : zipCircuits a cs = .ok r)
    (ho : ∀ c ∈ cs, ∀ m ∈ c, ∀ o ∈ m, opWF o = true) : circuitWF r = true := by
  apply circuitWF_of_mem
  unfold zipCircuits at h
  refine mapM_except_mem _ (fun m => momentWF m = true) ?_ _ r h
  intro k m hk
  refine mkMoment_wf _ m hk ?_
  intro o hmem
  simp only [List.mem_flatMap, List.mem_map] at hmem
  obtain ⟨c', ⟨c, hc, rfl⟩, ho'⟩ := hmem
  have hsub : ∀ mm, mm ∈ padTo a ((cs.map List.length).foldl max 0) c → mm = [] ∨ mm ∈ c := by
    intro mm hmm
    unfold padTo at hmm
    cases a <;> simp only [List.mem_append, List.mem_replicate] at hmm <;> rcases hmm with h1 | h1
    · right; exact h1
    · left; exact h1.2
    · left; exact h1.2
    · right; exact h1
    · left; exact h1.2
    · right; exact h1
  generalize hp : padTo a ((cs.map List.length).foldl max 0) c = pc at ho' hsub
  cases hg : pc[k]? with
  | none => simp [hg] at ho'
  | some mm =>
    simp only [hg, Option.getD_some] at ho'
    rcases hsub mm (List.mem_of_getElem? hg) with rfl | hin
    · simp at ho'
    · exact ho c hc mm hin o ho'

/-- … and as long as the longest circuit -/
theorem C05_zip_length (a : Align) (cs : List Circuit) (r : Circuit) (h : zipCircuits a cs = .ok r) :
    r.length = (cs.map List.length).foldl max 0 := by
  unfold zipCircuits at h
  simpa using mapM_except_length _ _ r h

example : (zipCircuits .right [[[⟨1, [0], [], []⟩]], [[⟨2, [1], [], []⟩], [⟨3, [1], [], []⟩]]]).toOption
    = some [[⟨2, [1], [], []⟩], [⟨1, [0], [], []⟩, ⟨3, [1], [], []⟩]] := by decide

example : (zipCircuits .left [[[⟨1, [0], [], []⟩]], [[⟨2, [0], [], []⟩]]]).toOption = none := by decide

/-- **`Circuit.zip` keeps every operation exactly once** -/
theorem C05_zip_conserves (a : Align) (cs : List Circuit) (r : Circuit) (h : zipCircuits a cs = .ok r) :
    (allOps r).Perm (cs.flatMap allOps) := by
  unfold zipCircuits at h
  generalize hn : (cs.map List.length).foldl max 0 = n at h
  have hr := mapM_except_eq_map (fun k => mkMoment ((cs.map (padTo a n)).flatMap (fun c => c[k]?.getD [])))
    (fun k => (cs.map (padTo a n)).flatMap (fun c => c[k]?.getD []))
    (fun k m hk => by have := withOperations_eq [] m _ hk; simpa using this) (List.range n) r h
  subst hr
  have h1 : allOps ((List.range n).map (fun k => (cs.map (padTo a n)).flatMap (fun c => c[k]?.getD [])))
      = (List.range n).flatMap (fun k => (cs.map (padTo a n)).flatMap (fun c => c[k]?.getD [])) := by
    simp [allOps, List.flatMap_def]
  rw [h1]
  refine (flatMap_swap_perm (List.range n) (cs.map (padTo a n)) (fun k c => c[k]?.getD [])).trans ?_
  rw [List.flatMap_map]
  have hlen : ∀ c ∈ cs, c.length ≤ n := by
    intro c hc
    have := (foldl_max_ge_mem (cs.map List.length) 0).2 c.length (List.mem_map_of_mem hc)
    omega
  have h2 : ∀ c ∈ cs, (List.range n).flatMap (fun k => (padTo a n c)[k]?.getD []) = allOps c := by
    intro c hc
    have hl := padTo_length_eq a n c (hlen c hc)
    have := range_flatMap_getD (padTo a n c)
    rw [hl] at this
    rw [this, padTo_flatten]; rfl
  rw [flatMap_congr_mem cs _ allOps h2]

end CirqVerif.C05
