import CirqVerif.Model.C11
/-!
# C11 — the shared-object mechanism of the JSON format round-trips every value

`C11_roundtrip`: for every value (any nesting, any number of shared objects occurring any number of times, shared
objects nested in shared objects) reading what was written returns the value.  The proof threads the encoder's and
the decoder's memo through the traversal: a key is *pending* while the shared object it belongs to is still being
written (its contents come first in the document); a pending object is strictly larger than anything inside it, so no
reference to a pending key is ever emitted.
-/
namespace CirqVerif.C11

/-- encoder memo `m` and decoder memo `dm` agree while traversing `v`: every key is resolved in `dm`, or belongs to an
enclosing shared object (which is larger than `v`) -/
def Agree (m : List Val) (dm : List (Nat × Val)) (v : Val) : Prop :=
  ∀ k w, m[k]? = some w → dm.lookup k = some w ∨ sizeOf v < sizeOf w

theorem idxOf?_some_get (m : List Val) (x : Val) (k : Nat) (h : m.idxOf? x = some k) : m[k]? = some x := by
  induction m generalizing k with
  | nil => simp [List.idxOf?] at h
  | cons y ys ih =>
    by_cases hy : y = x
    · subst hy
      simp [List.idxOf?, List.findIdx?_cons] at h
      subst h; simp
    · have hne : (y == x) = false := by simpa using hy
      simp only [List.idxOf?, List.findIdx?_cons, hne] at h
      cases hr : List.findIdx? (· == x) ys with
      | none => simp [hr] at h
      | some j =>
        simp [hr] at h
        subst h
        simpa using ih j (by simpa [List.idxOf?] using hr)

theorem enc_prefix (m : List Val) (v : Val) : ∃ ext, (enc m v).1 = m ++ ext := by
  induction v generalizing m with
  | atom s => exact ⟨[], by simp [enc]⟩
  | pair a b iha ihb =>
    obtain ⟨e1, h1⟩ := iha m
    obtain ⟨e2, h2⟩ := ihb (enc m a).1
    exact ⟨e1 ++ e2, by simp only [enc]; rw [h2, h1, List.append_assoc]⟩
  | obj t v ih =>
    obtain ⟨e, h⟩ := ih m
    exact ⟨e, by simpa [enc] using h⟩
  | shared v ih =>
    simp only [enc]
    cases hidx : m.idxOf? (Val.shared v) with
    | some k => exact ⟨[], by simp⟩
    | none =>
      obtain ⟨e, h⟩ := ih (m ++ [Val.shared v])
      exact ⟨Val.shared v :: e, by simp only; rw [h]; simp⟩

theorem get_of_prefix {m ext : List Val} {k : Nat} {w : Val} (h : m[k]? = some w) : (m ++ ext)[k]? = some w := by
  have hk : k < m.length := (List.getElem?_eq_some_iff.mp h).1
  rw [List.getElem?_append_left hk]; exact h

/-- the state-threaded round trip -/
theorem roundtrip_aux (v : Val) : ∀ (m : List Val) (dm : List (Nat × Val)), Agree m dm v →
    ∃ dm', dec dm (enc m v).2 = some (dm', v) ∧
      (∀ k w, (enc m v).1[k]? = some w → dm'.lookup k = some w ∨ (m[k]? = some w ∧ ¬ dm.lookup k = some w)) := by
  induction v with
  | atom s =>
    intro m dm _
    refine ⟨dm, by simp [enc, dec], ?_⟩
    intro k w hk
    simp only [enc] at hk
    by_cases hr : dm.lookup k = some w
    · exact Or.inl hr
    · exact Or.inr ⟨hk, hr⟩
  | obj t v ih =>
    intro m dm hag
    have hag' : Agree m dm v := by
      intro k w hk
      rcases hag k w hk with h | h
      · exact Or.inl h
      · right; simp only [Val.obj.sizeOf_spec] at h; omega
    obtain ⟨dm', hd, hpost⟩ := ih m dm hag'
    refine ⟨dm', by simp [enc, dec, hd], ?_⟩
    simpa [enc] using hpost
  | pair a b iha ihb =>
    intro m dm hag
    have haga : Agree m dm a := by
      intro k w hk
      rcases hag k w hk with h | h
      · exact Or.inl h
      · right; simp only [Val.pair.sizeOf_spec] at h; omega
    obtain ⟨dm1, hd1, hpost1⟩ := iha m dm haga
    obtain ⟨ext1, hext1⟩ := enc_prefix m a
    have hagb : Agree (enc m a).1 dm1 b := by
      intro k w hk
      rcases hpost1 k w hk with h | ⟨hm, hnot⟩
      · exact Or.inl h
      · rcases hag k w hm with h | h
        · exact absurd h hnot
        · right; simp only [Val.pair.sizeOf_spec] at h; omega
    obtain ⟨dm2, hd2, hpost2⟩ := ihb (enc m a).1 dm1 hagb
    refine ⟨dm2, by simp [enc, dec, hd1, hd2], ?_⟩
    intro k w hk
    simp only [enc] at hk
    rcases hpost2 k w hk with h | ⟨hm1, hnot1⟩
    · exact Or.inl h
    · -- still unresolved after `b`: it was unresolved after `a` too, hence pending from the start
      rcases hpost1 k w hm1 with h | ⟨hm, hnot⟩
      · exact absurd h hnot1
      · exact Or.inr ⟨hm, hnot⟩
  | shared v ih =>
    intro m dm hag
    simp only [enc]
    cases hidx : m.idxOf? (Val.shared v) with
    | some k =>
      have hget := idxOf?_some_get m _ k hidx
      have hres : dm.lookup k = some (Val.shared v) := by
        rcases hag k _ hget with h | h
        · exact h
        · exact absurd h (Nat.lt_irrefl _)
      refine ⟨dm, by simp [dec, hres], ?_⟩
      intro j w hj
      by_cases hr : dm.lookup j = some w
      · exact Or.inl hr
      · exact Or.inr ⟨hj, hr⟩
    | none =>
      have hag0 : Agree (m ++ [Val.shared v]) dm v := by
        intro k w hk
        by_cases hlt : k < m.length
        · rw [List.getElem?_append_left hlt] at hk
          rcases hag k w hk with h | h
          · exact Or.inl h
          · right; simp only [Val.shared.sizeOf_spec] at h; omega
        · have hk' := hk
          rw [List.getElem?_append_right (by omega)] at hk'
          have : k - m.length = 0 := by
            cases hkk : k - m.length with
            | zero => rfl
            | succ n => simp [hkk] at hk'
          simp [this] at hk'
          subst hk'
          right; simp only [Val.shared.sizeOf_spec]; omega
      obtain ⟨dm1, hd1, hpost1⟩ := ih (m ++ [Val.shared v]) dm hag0
      obtain ⟨ext, hext⟩ := enc_prefix (m ++ [Val.shared v]) v
      refine ⟨(m.length, Val.shared v) :: dm1, by simp [dec, hd1], ?_⟩
      intro j w hj
      simp only at hj
      by_cases hjk : j = m.length
      · subst hjk
        left
        have : (enc (m ++ [Val.shared v]) v).1[m.length]? = some (Val.shared v) := by
          rw [hext, List.append_assoc]
          rw [List.getElem?_append_right (Nat.le_refl _)]
          simp
        rw [this] at hj
        cases hj
        simp [List.lookup]
      · have hne : (j == m.length) = false := by simpa using hjk
        rcases hpost1 j w hj with h | ⟨hm0, hnot⟩
        · left; simp [List.lookup, hne, h]
        · have hlt : j < m.length := by
            have := (List.getElem?_eq_some_iff.mp hm0).1
            simp at this; omega
          rw [List.getElem?_append_left hlt] at hm0
          exact Or.inr ⟨hm0, hnot⟩

/-- **JSON round-trips every value, shared sub-objects included** -/
theorem C11_roundtrip (v : Val) : readJson (toJson v) = some v := by
  have hag : Agree [] [] v := by intro k w hk; simp at hk
  obtain ⟨dm', hd, _⟩ := roundtrip_aux v [] [] hag
  simp [readJson, toJson, hd]

/-- a shared object that has been written is never written again: its second occurrence is a reference -/
theorem C11_second_occurrence_is_ref (m : List Val) (v : Val) (k : Nat) (h : m.idxOf? (Val.shared v) = some k) :
    (enc m (Val.shared v)).2 = Enc.ref k := by
  simp [enc, h]

example : toJson (.pair (.shared (.atom "c")) (.pair (.shared (.pair (.shared (.atom "c")) (.atom "x"))) (.shared (.atom "c"))))
    = .pair (.val 0 (.atom "c")) (.pair (.val 1 (.pair (.ref 0) (.atom "x"))) (.ref 0)) := by decide

end CirqVerif.C11
