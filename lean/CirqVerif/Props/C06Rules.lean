import CirqVerif.Proofs.GateDocs
import CirqVerif.Spec.GateDocs2
/-!
# C06 — the commutation rules the phase-ejecting passes rely on, for every parameter value

`eject_z` carries a pending `Z**a` per qubit to the right and `eject_phased_paulis` a pending Pauli; each step
replaces `G ∘ Z**a` by `Z**a' ∘ G'`.  The rules below are the matrix identities that make those steps sound,
stated on the documented matrices (`Spec/GateDocs`) for all exponents over any commutative ring with a lawful
phase map.  The harness (`rule` stream of C06) checks that the passes emit exactly the right-hand sides.
Matrix products are written in application order: `mul B A` is "first `A`, then `B`".
-/
namespace CirqVerif.GateDocs
variable {A R : Type} [Lean.Grind.CommRing A] [Lean.Grind.CommRing R]

/-- product of list matrices (`a · b`) -/
def mul (a b : M R) : M R :=
  a.map (fun row => (List.range (b.headD []).length).map (fun j =>
    (List.zipWith (· * ·) row (b.map (fun r => r.getD j 0))).foldl (· + ·) 0))

/-- more facts about `ph` used by the rules -/
theorem ph_sub_add {E : Env A R} (h : Lawful E) (x y : A) : E.ph (x - y) * E.ph y = E.ph x := by
  rw [← h.ph_add]; congr 1; grind

theorem ph_add_sub {E : Env A R} (h : Lawful E) (x y : A) : E.ph (x + y) = E.ph x * E.ph y := h.ph_add x y

macro "unfold_mul" : tactic => `(tactic|
  simp only [mul, smul, List.map_cons, List.map_nil, List.headD_cons, List.length_cons, List.length_nil, List.range, List.range.loop,
    List.getD_cons_zero, List.getD_cons_succ, List.zipWith_cons_cons, List.zipWith_nil_left, List.foldl_cons, List.foldl_nil, Nat.reduceAdd])

/-- `eject_z`, PhasedX: a pending `Z**a` passes a `PhasedXPowGate` by lowering its phase exponent by `a` -/
theorem C06_rule_z_through_phasedx (E : Env A R) (h : Lawful E) (t p s a : A) :
    mul (phasedx E t p s) (zpow E a 0) = mul (zpow E a 0) (phasedx E t (p - a) s) := by
  have h1 : E.ph (a * 0) = 1 := by rw [show a * 0 = (0 : A) by grind]; exact h.ph_zero
  have h2 : E.ph (t * E.halfA + p) = E.ph (t * E.halfA + (p - a)) * E.ph a := by
    rw [← h.ph_add]; congr 1; grind
  have h3 : E.ph (t * E.halfA - (p - a)) = E.ph (t * E.halfA - p) * E.ph a := by
    rw [← h.ph_add]; congr 1; grind
  simp only [phasedx, zpow]
  unfold_mul
  simp only [h1, h2, h3]
  mat_eq

/-- `eject_z`, PhasedXZ: a pending `Z**a` is absorbed by a following `PhasedXZGate` -/
theorem C06_rule_z_into_phasedxz (E : Env A R) (h : Lawful E) (x z ax a : A) :
    mul (phasedxz E x z ax) (zpow E a 0) = phasedxz E x (z + a) (ax - a) := by
  have h1 : E.ph (a * 0) = 1 := by rw [show a * 0 = (0 : A) by grind]; exact h.ph_zero
  have h2 : E.ph (x * E.halfA - (ax - a)) = E.ph (x * E.halfA - ax) * E.ph a := by
    rw [← h.ph_add]; congr 1; grind
  have h3 : E.ph (x * E.halfA + (z + a) + (ax - a)) = E.ph (x * E.halfA + z + ax) := by congr 1; grind
  have h4 : E.ph (x * E.halfA + (z + a)) = E.ph (x * E.halfA + z) * E.ph a := by
    rw [← h.ph_add]; congr 1; grind
  simp only [phasedxz, zpow]
  unfold_mul
  simp only [h1, h2, h3, h4]
  mat_eq

/-- `eject_z`, diagonal two-qubit gates: `CZ**t` commutes with pending Z powers on both qubits -/
theorem C06_rule_z_commutes_cz (E : Env A R) (t s a b : A) :
    mul (czpow E t s) (kron (zpow E a 0) (zpow E b 0)) = mul (kron (zpow E a 0) (zpow E b 0)) (czpow E t s) := by
  simp only [czpow, zpow, kron, diag, smul, List.map_cons, List.map_nil, List.flatMap_cons, List.flatMap_nil, List.append_nil,
    List.cons_append, List.nil_append, List.zipIdx, List.length_cons, List.length_nil, List.range, List.range.loop]
  simp
  unfold_mul
  mat_eq

/-- `eject_z`, swap-like gates (`SWAP`, `ISWAP**±1`, `FSimGate(θ = π/2 + kπ, φ)`: no amplitude stays on `|01⟩`, `|10⟩`):
pending Z powers change sides -/
theorem C06_rule_z_through_swaplike (E : Env A R) (u v w x : R) (a b : A) :
    mul [[u, 0, 0, 0], [0, 0, v, 0], [0, w, 0, 0], [0, 0, 0, x]] (kron (zpow E a 0) (zpow E b 0))
      = mul (kron (zpow E b 0) (zpow E a 0)) [[u, 0, 0, 0], [0, 0, v, 0], [0, w, 0, 0], [0, 0, 0, x]] := by
  simp only [zpow, kron, smul, List.map_cons, List.map_nil, List.flatMap_cons, List.flatMap_nil, List.append_nil,
    List.cons_append, List.nil_append]
  unfold_mul
  mat_eq

/-- the π pulse about the axis at phase exponent `p` (`PhasedXPowGate(phase_exponent=p)` at exponent 1): `[[0, e^{-iπp}], [e^{iπp}, 0]]` -/
def piPulse (E : Env A R) (p : A) : M R := [[0, E.ph (-p)], [E.ph p, 0]]

/-- `eject_phased_paulis`: a `Z**a` after a pending π pulse is absorbed into its axis (`Z**a W(p) = e^{iπa/2} W(p + a/2)`) -/
theorem C06_rule_z_after_pauli (E : Env A R) (h : Lawful E) (p a : A) :
    mul (zpow E a 0) (piPulse E p) = smul (E.ph (a * E.halfA)) (piPulse E (p + a * E.halfA)) := by
  have h1 : E.ph (a * 0) = 1 := by rw [show a * 0 = (0 : A) by grind]; exact h.ph_zero
  have h2 : E.ph (a * E.halfA) * E.ph (-(p + a * E.halfA)) = E.ph (-p) := by
    rw [← h.ph_add]; congr 1; grind
  have h3 : E.ph (a * E.halfA) * E.ph (p + a * E.halfA) = E.ph a * E.ph p := by
    rw [← h.ph_add, ← h.ph_add]; congr 1
    have := h.halfA_def; grind
  simp only [piPulse, zpow]
  unfold_mul
  simp only [h1]
  mat_eq

/-- `eject_phased_paulis`: a pending Pauli X on the first qubit passes `CZ**t` by inverting it and leaving `Z**t` on the other
qubit: `CZ**t (X ⊗ I) = (X ⊗ I) CZ**-t (I ⊗ Z**t)` -/
theorem C06_rule_x_through_cz (E : Env A R) (h : Lawful E) (t : A) :
    mul (czpow E t 0) (kron (pauliX : M R) (eye 2))
      = mul (kron (pauliX : M R) (eye 2)) (mul (czpow E (-t) 0) (kron (eye 2) (zpow E t 0))) := by
  have h1 : E.ph (t * 0) = 1 := by rw [show t * 0 = (0 : A) by grind]; exact h.ph_zero
  have h1' : E.ph (-t * 0) = 1 := by rw [show -t * 0 = (0 : A) by grind]; exact h.ph_zero
  have h4 : E.ph t * E.ph (-t) = 1 := ph_neg_mul h t
  simp only [czpow, zpow, kron, diag, eye, pauliX, smul, List.map_cons, List.map_nil, List.flatMap_cons, List.flatMap_nil, List.append_nil,
    List.cons_append, List.nil_append, List.zipIdx, List.length_cons, List.length_nil, List.range, List.range.loop]
  simp
  unfold_mul
  simp only [h1, h1']
  mat_eq

end CirqVerif.GateDocs
