import CirqVerif.Spec.Vendor
/-!
# C17 — the vendor gate definitions, evaluated exactly, and the little-endian outcome encoding

The payload interpreter (driver, floats) uses `Spec.Vendor.qisMatrix`; here the same definition is evaluated in
ℚ(ζ₈) with angles in units of π/4 and the kernel checks the documented identities between IonQ's QIS gates.
-/
namespace CirqVerif.Vendor
open CirqVerif CirqVerif.Qasm

def exactQis (name : String) (θ : Oct := ⟨0⟩) : Option (Array Q8) := qisMatrix octTrig Q8.I name θ

/-- product of two row-major 2×2 matrices -/
def mul2 (a b : Array Q8) : Array Q8 :=
  #[a[0]! * b[0]! + a[1]! * b[2]!, a[0]! * b[1]! + a[1]! * b[3]!, a[2]! * b[0]! + a[3]! * b[2]!, a[2]! * b[1]! + a[3]! * b[3]!]

def omul2 (a b : Option (Array Q8)) : Option (Array Q8) := do return mul2 (← a) (← b)

private def i : Q8 := Q8.I
private def r : Q8 := Q8.isq2
private def z : Q8 := Q8.zeta
private def h2 : Q8 := Q8.half

theorem C17_qis_h : exactQis "h" = some #[r, r, r, -r] := by decide +kernel
theorem C17_qis_y : exactQis "y" = some #[0, -i, i, 0] := by decide +kernel
theorem C17_qis_t : exactQis "t" = some #[1, 0, 0, z] := by decide +kernel
/-- `v` is the documented √NOT `½[[1+i, 1−i], [1−i, 1+i]]` -/
theorem C17_qis_v : exactQis "v" = some #[h2 * (1 + i), h2 * (1 + -i), h2 * (1 + -i), h2 * (1 + i)] := by decide +kernel
theorem C17_qis_v_squared : omul2 (exactQis "v") (exactQis "v") = exactQis "x" := by decide +kernel
theorem C17_qis_v_vi : omul2 (exactQis "v") (exactQis "vi") = some #[1, 0, 0, 1] := by decide +kernel
theorem C17_qis_s_squared : omul2 (exactQis "s") (exactQis "s") = exactQis "z" := by decide +kernel
theorem C17_qis_t_squared : omul2 (exactQis "t") (exactQis "t") = exactQis "s" := by decide +kernel
theorem C17_qis_s_si : omul2 (exactQis "s") (exactQis "si") = some #[1, 0, 0, 1] := by decide +kernel
theorem C17_qis_t_ti : omul2 (exactQis "t") (exactQis "ti") = some #[1, 0, 0, 1] := by decide +kernel
theorem C17_qis_h_squared : omul2 (exactQis "h") (exactQis "h") = some #[1, 0, 0, 1] := by decide +kernel
/-- rotations at the representable angles: `rx(π) = −iX`, `ry(π) = −iY`, `rz(π) = −iZ`, `rx(π/2)·rx(π/2) = rx(π)` -/
theorem C17_qis_rx_pi : exactQis "rx" ⟨4⟩ = some #[0, -i, -i, 0] := by decide +kernel
theorem C17_qis_ry_pi : exactQis "ry" ⟨4⟩ = some #[0, -1, 1, 0] := by decide +kernel
theorem C17_qis_rz_pi : exactQis "rz" ⟨4⟩ = some #[-i, 0, 0, i] := by decide +kernel
theorem C17_qis_rx_half_twice : omul2 (exactQis "rx" ⟨2⟩) (exactQis "rx" ⟨2⟩) = exactQis "rx" ⟨4⟩ := by decide +kernel
/-- `v` is `rx(π/2)` up to the phase e^{iπ/4} -/
theorem C17_qis_v_is_rx : exactQis "v" = (exactQis "rx" ⟨2⟩).map (fun m => m.map (z * ·)) := by decide +kernel
/-- `xx(π) = −i X⊗X`, `yy(π) = −i Y⊗Y`, `zz(π) = −i Z⊗Z` -/
theorem C17_qis_xx_pi : exactQis "xx" ⟨4⟩ = some #[0, 0, 0, -i,  0, 0, -i, 0,  0, -i, 0, 0,  -i, 0, 0, 0] := by decide +kernel
theorem C17_qis_yy_pi : exactQis "yy" ⟨4⟩ = some #[0, 0, 0, i,  0, 0, -i, 0,  0, -i, 0, 0,  i, 0, 0, 0] := by decide +kernel
theorem C17_qis_zz_pi : exactQis "zz" ⟨4⟩ = some #[-i, 0, 0, 0,  0, i, 0, 0,  0, 0, i, 0,  0, 0, 0, -i] := by decide +kernel
theorem C17_qis_unknown : exactQis "foo" = none := by decide +kernel

/-! ### little-endian outcome integers -/

theorem C17_leValue_leBits (n v : Nat) : leValue (leBits n v) = v % 2 ^ n := by
  induction n generalizing v with
  | zero => simp [leBits, leValue, Nat.mod_one]
  | succ n ih =>
    simp only [leBits, leValue, ih]
    rw [Nat.pow_succ, Nat.mul_comm (2 ^ n) 2, Nat.mod_mul]

/-- **every outcome goes to the right qubit**: decoding the integer of a bit assignment returns the assignment -/
theorem C17_leBits_leValue (bits : List Nat) (h : ∀ b ∈ bits, b < 2) : leBits bits.length (leValue bits) = bits := by
  induction bits with
  | nil => rfl
  | cons b bs ih =>
    have hb : b < 2 := h b (by simp)
    have hbs : ∀ x ∈ bs, x < 2 := fun x hx => h x (by simp [hx])
    simp only [List.length_cons, leBits, leValue]
    have h1 : (b + 2 * leValue bs) % 2 = b := by omega
    have h2 : (b + 2 * leValue bs) / 2 = leValue bs := by omega
    rw [h1, h2, ih hbs]

theorem C17_leBits_length (n v : Nat) : (leBits n v).length = n := by
  induction n generalizing v with
  | zero => rfl
  | succ n ih => simp [leBits, ih]

end CirqVerif.Vendor
