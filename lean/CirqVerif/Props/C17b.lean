import CirqVerif.Spec.Vendor
import CirqVerif.Props.C19b
/-!
# C17 — the IonQ QIS gates the serializer writes denote the documented Cirq gates, for every exponent

The serializer writes `XPowGate(t)` as `{"gate": "rx", "rotation": π t}` (and `ry`, `rz`, `xx`, `yy`, `zz` likewise).  With the
vendor's gate definitions (Spec/Vendor.qisMatrix) evaluated symbolically at a rotation of `t` half turns and the documented Cirq
matrices of Spec/GateDocs, each rule is the identity "vendor gate = Cirq gate with global shift −½" — for every exponent, over any
commutative ring with a lawful phase map (ℂ: NonVacuity/ComplexModel.lean).  The `rule` stream of the C17 harness checks that the
serializer writes exactly these gate names and rotations.
-/
namespace CirqVerif.Vendor
open CirqVerif CirqVerif.GateDocs CirqVerif.Qasm
variable {A R : Type} [Lean.Grind.CommRing A] [Lean.Grind.CommRing R]

/-- row-major flattening -/
def flat (m : M R) : Array R := (m.flatten).toArray

/-- the QIS gate with its `rotation` given in half turns (`rotation = π·t` in the payload) -/
def qisHalfTurns (E : Env A R) (name : String) (t : A) : Option (Array R) :=
  letI := halfTurns E
  qisMatrix (envTrig E) E.I name t

theorem C17_rule_rx (E : Env A R) (h : Lawful E) (t : A) :
    qisHalfTurns E "rx" t = some (flat (xpow E t (-E.halfA))) := by
  have h3 : E.ph (t * (-E.halfA + E.halfA)) = 1 := by
    rw [show t * (-E.halfA + E.halfA) = (0:A) by grind]; exact h.ph_zero
  simp only [qisHalfTurns, qisMatrix, envTrig, xpow, flat, smul, h3, List.map_cons, List.map_nil, List.flatten_cons, List.flatten_nil,
    List.cons_append, List.nil_append, List.append_nil, Option.some.injEq]
  congr 1
  simp only [List.cons.injEq, and_true]
  refine ⟨?_, ?_, ?_, ?_⟩ <;> grind

macro "flat_eq" : tactic => `(tactic|
  (congr 1
   simp only [List.cons.injEq, and_true]
   repeat' constructor
   all_goals grind))

theorem C17_rule_ry (E : Env A R) (h : Lawful E) (t : A) :
    qisHalfTurns E "ry" t = some (flat (ypow E t (-E.halfA))) := by
  have h3 : E.ph (t * (-E.halfA + E.halfA)) = 1 := by
    rw [show t * (-E.halfA + E.halfA) = (0:A) by grind]; exact h.ph_zero
  simp only [qisHalfTurns, qisMatrix, envTrig, ypow, flat, smul, h3, List.map_cons, List.map_nil, List.flatten_cons, List.flatten_nil,
    List.cons_append, List.nil_append, List.append_nil, Option.some.injEq]
  flat_eq

/-- `ZPowGate(t)` → `rz(πt)`: `diag(e^{-iπt/2}, e^{iπt/2})` is `Z**t` with global shift −½ -/
theorem C17_rule_rz (E : Env A R) (h : Lawful E) (t : A) :
    qisHalfTurns E "rz" t = some (flat (zpow E t (-E.halfA))) := by
  have h1 : E.ph (t * -E.halfA) = E.ph (-(t * E.halfA)) := by congr 1; grind
  have h2 : E.ph (t * -E.halfA) * E.ph t = E.ph (t * E.halfA) := by
    rw [← h.ph_add]; congr 1; have := h.halfA_def; grind
  simp only [qisHalfTurns, qisMatrix, envTrig, zpow, flat, smul, List.map_cons, List.map_nil, List.flatten_cons, List.flatten_nil,
    List.cons_append, List.nil_append, List.append_nil, Option.some.injEq]
  flat_eq

/-- `XXPowGate(t)` → `xx(πt)` = `e^{-iπt XX/2}` = `XX**t` with global shift −½ -/
theorem C17_rule_xx (E : Env A R) (h : Lawful E) (t : A) :
    qisHalfTurns E "xx" t = some (flat (xxpow E t (-E.halfA))) := by
  have h1 : E.ph (t * -E.halfA) * E.ph (t * E.halfA) = 1 := by
    rw [← h.ph_add, show t * -E.halfA + t * E.halfA = (0:A) by grind]; exact h.ph_zero
  simp only [qisHalfTurns, qisMatrix, envTrig, xxpow, flat, smul, List.map_cons, List.map_nil, List.flatten_cons, List.flatten_nil,
    List.cons_append, List.nil_append, List.append_nil, Option.some.injEq]
  flat_eq

theorem C17_rule_yy (E : Env A R) (h : Lawful E) (t : A) :
    qisHalfTurns E "yy" t = some (flat (yypow E t (-E.halfA))) := by
  have h1 : E.ph (t * -E.halfA) * E.ph (t * E.halfA) = 1 := by
    rw [← h.ph_add, show t * -E.halfA + t * E.halfA = (0:A) by grind]; exact h.ph_zero
  simp only [qisHalfTurns, qisMatrix, envTrig, yypow, flat, smul, List.map_cons, List.map_nil, List.flatten_cons, List.flatten_nil,
    List.cons_append, List.nil_append, List.append_nil, Option.some.injEq]
  flat_eq

theorem C17_rule_zz (E : Env A R) (h : Lawful E) (t : A) :
    qisHalfTurns E "zz" t = some (flat (zzpow E t (-E.halfA))) := by
  have h1 : E.ph (t * -E.halfA) = E.ph (-(t * E.halfA)) := by congr 1; grind
  have h2 : E.ph (t * -E.halfA) * E.ph t = E.ph (t * E.halfA) := by
    rw [← h.ph_add]; congr 1; have := h.halfA_def; grind
  simp only [qisHalfTurns, qisMatrix, envTrig, zzpow, diag, flat, smul, List.map_cons, List.map_nil, List.flatten_cons, List.flatten_nil,
    List.cons_append, List.nil_append, List.append_nil, Option.some.injEq, List.zipIdx, List.length_cons, List.length_nil, List.range, List.range.loop]
  simp
  repeat' constructor
  all_goals grind

end CirqVerif.Vendor
