import CirqVerif.Spec.Circuit
import CirqVerif.Base.CFloat
import CirqVerif.Base.Q8
/-!
# OpenQASM 2.0 `qelib1.inc` (and the 3.0 `stdgates.inc` names) — trusted transcription

Every library gate is expanded into the two built-in operations `U(θ,φ,λ)` and `CX` exactly as `qelib1.inc`
defines it (`sx`, `sxdg`, `swap`, `cswap`, `p`, `cp` as in the extended `qelib1.inc` shipped with Qiskit and in
`stdgates.inc`); the built-ins get their matrices from the OpenQASM 2.0 specification.  The definitions are
polymorphic in the type of angles and of amplitudes, so that the same text is *executed* on floats (to interpret
the QASM Cirq emits) and *evaluated exactly* in ℚ(ζ₈) with angles in units of π/4 (`Props.C19`: the expansions of
the parameter-free gates are the textbook matrices).

A program is a list of statements over one quantum register and named classical registers; its semantics is
the set of branches (unnormalised state, classical registers) — projective measurement of one qubit into one
classical bit, `if (creg == v)` / `if (creg != v)` on the little-endian integer value of a register, `reset`.
-/
namespace CirqVerif.Qasm
open CirqVerif CirqVerif.Circ

/-- what the expansions need from angles -/
class Angle (A : Type) where
  zero : A
  pi : A
  half : A → A
  neg : A → A
  add : A → A → A

inductive Prim (A : Type) where
  | u (theta phi lam : A) (q : Nat)
  | cx (c t : Nat)
  deriving Repr

section expand
variable {A : Type} [Angle A]
open Angle

/-- names defined by OpenQASM 3.0's `stdgates.inc` (no `sxdg`, no `u0`) -/
def stdgates3 : List String :=
  ["p", "x", "y", "z", "h", "s", "sdg", "t", "tdg", "sx", "rx", "ry", "rz", "cx", "cy", "cz", "cp", "crx", "cry", "crz",
   "ch", "swap", "ccx", "cswap", "cu", "CX", "phase", "cphase", "id", "u1", "u2", "u3", "U"]

/-- expansion of a library gate application into built-ins, by recursion on the definition depth (fuel) -/
def expand : Nat → String → List A → List Nat → Option (List (Prim A))
  | 0, _, _, _ => none
  | fuel + 1, name, p, qs =>
    let a := qs.getD 0 0; let b := qs.getD 1 0; let c := qs.getD 2 0
    let p0 := p.getD 0 zero; let p1 := p.getD 1 zero; let p2 := p.getD 2 zero
    let hpi : A := half pi
    let qpi : A := half (half pi)
    let seq (l : List (String × List A × List Nat)) : Option (List (Prim A)) :=
      l.foldl (fun acc (n, ps, q) => match acc, expand fuel n ps q with
        | some xs, some ys => some (xs ++ ys) | _, _ => none) (some [])
    match name with
    | "U" | "u3" | "u" => some [.u p0 p1 p2 a]
    | "u2" => some [.u hpi p0 p1 a]
    | "u1" | "p" | "phase" => some [.u zero zero p0 a]
    | "CX" | "cx" => some [.cx a b]
    | "id" => some [.u zero zero zero a]
    | "x" => seq [("u3", [pi, zero, pi], [a])]
    | "y" => seq [("u3", [pi, hpi, hpi], [a])]
    | "z" => seq [("u1", [pi], [a])]
    | "h" => seq [("u2", [zero, pi], [a])]
    | "s" => seq [("u1", [hpi], [a])]
    | "sdg" => seq [("u1", [neg hpi], [a])]
    | "t" => seq [("u1", [qpi], [a])]
    | "tdg" => seq [("u1", [neg qpi], [a])]
    | "rx" => seq [("u3", [p0, neg hpi, hpi], [a])]
    | "ry" => seq [("u3", [p0, zero, zero], [a])]
    | "rz" => seq [("u1", [p0], [a])]
    | "sx" => seq [("sdg", [], [a]), ("h", [], [a]), ("sdg", [], [a])]
    | "sxdg" => seq [("s", [], [a]), ("h", [], [a]), ("s", [], [a])]
    | "cz" => seq [("h", [], [b]), ("cx", [], [a, b]), ("h", [], [b])]
    | "cy" => seq [("sdg", [], [b]), ("cx", [], [a, b]), ("s", [], [b])]
    | "swap" => seq [("cx", [], [a, b]), ("cx", [], [b, a]), ("cx", [], [a, b])]
    | "ch" => seq [("h", [], [b]), ("sdg", [], [b]), ("cx", [], [a, b]), ("h", [], [b]), ("t", [], [b]), ("cx", [], [a, b]),
                   ("t", [], [b]), ("h", [], [b]), ("s", [], [b]), ("x", [], [b]), ("s", [], [a])]
    | "ccx" => seq [("h", [], [c]), ("cx", [], [b, c]), ("tdg", [], [c]), ("cx", [], [a, c]), ("t", [], [c]), ("cx", [], [b, c]),
                    ("tdg", [], [c]), ("cx", [], [a, c]), ("t", [], [b]), ("t", [], [c]), ("h", [], [c]), ("cx", [], [a, b]),
                    ("t", [], [a]), ("tdg", [], [b]), ("cx", [], [a, b])]
    | "cswap" => seq [("cx", [], [c, b]), ("ccx", [], [a, b, c]), ("cx", [], [c, b])]
    | "crz" => seq [("u1", [half p0], [b]), ("cx", [], [a, b]), ("u1", [neg (half p0)], [b]), ("cx", [], [a, b])]
    | "cu1" | "cp" | "cphase" =>
      seq [("u1", [half p0], [a]), ("cx", [], [a, b]), ("u1", [neg (half p0)], [b]), ("cx", [], [a, b]), ("u1", [half p0], [b])]
    | _ => none

/-- definitions nest at most five deep (`cswap → ccx → tdg → u1 → U`) -/
def expandGate (name : String) (p : List A) (qs : List Nat) : Option (List (Prim A)) := expand 8 name p qs

end expand

/-! ### matrices of the built-ins -/

/-- what the built-in `U` needs from amplitudes: `cos(θ/2)`, `sin(θ/2)`, `e^{iα}` -/
structure Trig (A R : Type) where
  cosHalf : A → R
  sinHalf : A → R
  cis : A → R

section mats
variable {A R : Type} [Angle A] [Mul R] [Neg R] [OfNat R 0] [OfNat R 1]

/-- `U(θ,φ,λ) = [[cos θ/2, −e^{iλ} sin θ/2], [e^{iφ} sin θ/2, e^{i(φ+λ)} cos θ/2]]` (row-major) -/
def uMatrix (T : Trig A R) (θ φ lam : A) : Array R :=
  #[T.cosHalf θ, -(T.sinHalf θ * T.cis lam), T.sinHalf θ * T.cis φ, T.cosHalf θ * T.cis (Angle.add φ lam)]

def cxMatrix : Array R :=
  #[1, 0, 0, 0,  0, 1, 0, 0,  0, 0, 0, 1,  0, 0, 1, 0]

def primArrOp (T : Trig A R) : Prim A → ArrOp R
  | .u θ φ lam q => { matrix := uMatrix T θ φ lam, axes := [q] }
  | .cx c t => { matrix := cxMatrix, axes := [c, t] }

end mats

/-! ### float instance (execution) -/

instance : Angle Float where
  zero := 0
  pi := 3.141592653589793
  half x := x / 2
  neg x := -x
  add x y := x + y

def floatTrig : Trig Float CFloat where
  cosHalf θ := ⟨Float.cos (θ / 2), 0⟩
  sinHalf θ := ⟨Float.sin (θ / 2), 0⟩
  cis α := CFloat.cis α

/-! ### exact instance: angles in units of π/4, amplitudes in ℚ(ζ₈)

`half` is integer division: exact for the even multiples that the parameter-free gates use (θ ∈ {0, π/2, π}
is halved once inside `U`; π is halved twice to give π/4). -/

structure Oct where
  k : Int
  deriving DecidableEq, Repr

instance : Angle Oct where
  zero := ⟨0⟩
  pi := ⟨4⟩
  half x := ⟨x.k / 2⟩
  neg x := ⟨-x.k⟩
  add x y := ⟨x.k + y.k⟩

/-- `e^{ikπ/4} = ζ₈^k` -/
def octCis (x : Oct) : Q8 := Q8.zetaPow (x.k % 8).toNat

/-- for θ = 2j·π/4: `cos(θ/2) = (ζ^j + ζ^{-j})/2`, `sin(θ/2) = (ζ^j − ζ^{-j})/(2i)` -/
def octTrig : Trig Oct Q8 where
  cosHalf θ := let j : Oct := ⟨θ.k / 2⟩; Q8.half * (octCis j + octCis ⟨-j.k⟩)
  sinHalf θ := let j : Oct := ⟨θ.k / 2⟩; Q8.half * (-(Q8.I)) * (octCis j + -(octCis ⟨-j.k⟩))
  cis := octCis

/-! ### programs -/

inductive Stmt (A : Type) where
  | gate (name : String) (params : List A) (qs : List Nat)
  | measure (q : Nat) (creg : String) (bit : Nat)
  | cond (creg : String) (value : Nat) (equal : Bool) (body : Stmt A)   -- `if (creg == value)` / `if (creg != value)`
  | reset (q : Nat)

structure QState (R : Type) where
  state : Array R
  cregs : List (String × List Nat)     -- bits, index 0 first

def getBits : List (String × List Nat) → String → List Nat
  | [], _ => []
  | (n, bits) :: rest, c => if n = c then bits else getBits rest c

def setBit : List (String × List Nat) → String → Nat → Nat → List (String × List Nat)
  | [], _, _, _ => []
  | (n, bits) :: rest, c, i, v => (if n = c then (n, bits.set i v) else (n, bits)) :: setBit rest c i v

/-- integer value of a classical register: bit 0 is the least significant -/
def cregValue (bits : List Nat) : Nat := bits.foldr (fun b acc => b + 2 * acc) 0

section sem
variable {A R : Type} [Angle A] [Add R] [Mul R] [Neg R] [OfNat R 0] [OfNat R 1] [Inhabited R]
variable (T : Trig A R) (nsq : R → R) (negligible : R → Bool)

inductive QErr where
  | undefinedGate (name : String)
  deriving Repr

def stepStmt (nq : Nat) (b : QState R) : Stmt A → Except QErr (List (QState R))
  | .gate name ps qs =>
    match expandGate name ps qs with
    | none => .error (.undefinedGate name)
    | some prims => .ok [{ b with state := runArr (List.replicate nq 2) b.state (prims.map (primArrOp T)) }]
  | .measure q creg bit =>
    .ok ([0, 1].filterMap (fun a =>
      let st := project (List.replicate nq 2) [q] [a] b.state
      if negligible (normSq nsq st) then none else some { state := st, cregs := setBit b.cregs creg bit a }))
  | .cond creg v equal body =>
    if (cregValue (getBits b.cregs creg) == v) == equal then stepStmt nq b body else .ok [b]
  | .reset q =>
    .ok ([0, 1].filterMap (fun a =>
      let shape := List.replicate nq 2
      let st := project shape [q] [a] b.state
      if negligible (normSq nsq st) then none
      else
        let moved : Array R := Array.ofFn (n := st.size) (fun p =>
          let idx := unflatten shape p.val
          if getAxes idx [q] == [0] then st.getD (flatIndex shape (setAxes idx [q] [a])) 0 else 0)
        some { b with state := moved }))

def runProgram (nq : Nat) (cregs : List (String × Nat)) (init : Array R) (stmts : List (Stmt A)) :
    Except QErr (List (QState R)) :=
  stmts.foldlM (fun bs s => do
      let nexts ← bs.mapM (fun b => stepStmt T nsq negligible nq b s)
      return nexts.flatten)
    [{ state := init, cregs := cregs.map (fun (n, k) => (n, List.replicate k 0)) }]

/-- the unitary of a measurement-free gate list, column by column -/
def gateListColumns (nq : Nat) (gates : List (String × List A × List Nat)) : Option (List (Array R)) :=
  let prims := gates.foldl (fun acc (n, ps, qs) => match acc, expandGate n ps qs with
    | some xs, some ys => some (xs ++ ys) | _, _ => none) (some [])
  prims.map (fun ps =>
    let n := 2 ^ nq
    (List.range n).map (fun k => runArr (List.replicate nq 2) ((Array.replicate n (0 : R)).set! k 1) (ps.map (primArrOp T))))

end sem

end CirqVerif.Qasm
