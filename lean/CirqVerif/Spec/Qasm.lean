import CirqVerif.Spec.Circuit
import CirqVerif.Base.CFloat
/-!
# OpenQASM 2.0 `qelib1.inc` (and the 3.0 `stdgates.inc` names Cirq emits) — trusted transcription

Every library gate is expanded into the two built-in operations `U(θ,φ,λ)` and `CX` exactly as `qelib1.inc`
defines it; the built-ins get their matrices from the OpenQASM specification.  A program is interpreted with
the reference semantics `Spec.Circuit` (measurement of one qubit into one classical bit, `if (creg == v)`).
-/
namespace CirqVerif.Qasm
open CirqVerif CirqVerif.Circ

inductive Prim where
  | u (theta phi lam : Float) (q : Nat)
  | cx (c t : Nat)
  deriving Repr

def pi : Float := 3.141592653589793

/-- expansion of a library gate application into built-ins (argument positions refer to `qs`) -/
partial def expand (name : String) (p : List Float) (qs : List Nat) : Option (List Prim) :=
  let a := qs.getD 0 0; let b := qs.getD 1 0; let c := qs.getD 2 0
  let p0 := p.getD 0 0; let p1 := p.getD 1 0; let p2 := p.getD 2 0
  let seq (l : List (String × List Float × List Nat)) : Option (List Prim) :=
    l.foldl (fun acc (n, ps, q) => match acc, expand n ps q with
      | some xs, some ys => some (xs ++ ys) | _, _ => none) (some [])
  match name with
  | "U" | "u3" | "u" => some [.u p0 p1 p2 a]
  | "u2" => some [.u (pi / 2) p0 p1 a]
  | "u1" | "p" | "phase" => some [.u 0 0 p0 a]
  | "CX" | "cx" => some [.cx a b]
  | "id" => some [.u 0 0 0 a]
  | "x" => expand "u3" [pi, 0, pi] [a]
  | "y" => expand "u3" [pi, pi / 2, pi / 2] [a]
  | "z" => expand "u1" [pi] [a]
  | "h" => expand "u2" [0, pi] [a]
  | "s" => expand "u1" [pi / 2] [a]
  | "sdg" => expand "u1" [-(pi / 2)] [a]
  | "t" => expand "u1" [pi / 4] [a]
  | "tdg" => expand "u1" [-(pi / 4)] [a]
  | "rx" => expand "u3" [p0, -(pi / 2), pi / 2] [a]
  | "ry" => expand "u3" [p0, 0, 0] [a]
  | "rz" => expand "u1" [p0] [a]
  | "sx" => seq [("sdg", [], [a]), ("h", [], [a]), ("sdg", [], [a])]
  | "sxdg" => seq [("s", [], [a]), ("h", [], [a]), ("s", [], [a])]
  | "cz" => seq [("h", [], [b]), ("cx", [], [a, b]), ("h", [], [b])]
  | "cy" => seq [("sdg", [], [b]), ("cx", [], [a, b]), ("s", [], [b])]
  | "swap" => seq [("cx", [], [a, b]), ("cx", [], [b, a]), ("cx", [], [a, b])]
  | "ch" => seq [("h", [], [b]), ("sdg", [], [b]), ("cx", [], [a, b]), ("h", [], [b]), ("t", [], [b]), ("cx", [], [a, b]),
                 ("t", [], [b]), ("h", [], [b]), ("s", [], [b]), ("x", [], [b]), ("s", [], [a])]
  | "ccx" => seq [("h", [], [c]), ("cx", [], [b, c]), ("tdg", [], [c]), ("cx", [], [a, c]), ("t", [], [c]), ("cx", [], [b, c]),
                  ("tdg", [], [c]), ("cx", [], [a, c]), ("t", [], [b]), ("t", [], [c]), ("h", [], [c]), ("cx", [], [a, b]),
                  ("t", [], [a]), ("tdg", [], [b]), ("cx", [], [a, b])]
  | "cswap" => seq [("cx", [], [c, b]), ("ccx", [], [a, b, c]), ("cx", [], [c, b])]
  | "crz" => seq [("u1", [p0 / 2], [b]), ("cx", [], [a, b]), ("u1", [-(p0 / 2)], [b]), ("cx", [], [a, b])]
  | "cu1" | "cp" => seq [("u1", [p0 / 2], [a]), ("cx", [], [a, b]), ("u1", [-(p0 / 2)], [b]), ("cx", [], [a, b]), ("u1", [p0 / 2], [b])]
  | _ => none

/-- matrix of the built-in `U(θ,φ,λ)` (row-major) -/
def uMatrix (θ φ lam : Float) : Array CFloat :=
  let c := Float.cos (θ / 2); let s := Float.sin (θ / 2)
  #[⟨c, 0⟩, CFloat.scale (-s) (CFloat.cis lam), CFloat.scale s (CFloat.cis φ), CFloat.scale c (CFloat.cis (φ + lam))]

def cxMatrix : Array CFloat :=
  #[1, 0, 0, 0,  0, 1, 0, 0,  0, 0, 0, 1,  0, 0, 1, 0]

def primOp : Prim → Op CFloat
  | .u θ φ lam q => .unitary (uMatrix θ φ lam) [q]
  | .cx c t => .unitary cxMatrix [c, t]

inductive Stmt where
  | gate (name : String) (params : List Float) (qs : List Nat)
  | measure (q : Nat) (creg : String) (bit : Nat)
  | cond (creg : String) (bit : Nat) (equal : Bool) (body : Stmt)   -- single-bit register compared with 1 (==) or 0 (!=)
  | reset (q : Nat)

/-- classical bit `creg[bit]` is recorded under the key `creg[bit]` -/
def bitKey (creg : String) (bit : Nat) : String := s!"{creg}[{bit}]"

partial def stmtOps : Stmt → Option (List (Op CFloat))
  | .gate n p qs => (expand n p qs).map (·.map primOp)
  | .measure q creg bit => some [.measure (bitKey creg bit) [q] [false] []]
  | .reset q => some [.reset [q]]
  | .cond creg bit equal body =>
    -- `if (c == 1)` on a one-bit register = "the bit is non-zero"; `if (c != 0)` the same
    (stmtOps body).map (fun ops => ops.map (fun o => .controlled [Cond.key (bitKey creg bit) (-1)] o))

def programOps (stmts : List Stmt) : Option (List (Op CFloat)) :=
  stmts.foldl (fun acc s => match acc, stmtOps s with | some xs, some ys => some (xs ++ ys) | _, _ => none) (some [])

end CirqVerif.Qasm
