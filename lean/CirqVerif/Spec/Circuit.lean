import CirqVerif.Model.Sim
/-!
# Reference semantics of circuits with measurement, feed-forward, reset and channels (core Lean only)

A run is a finite weighted set of branches.  A branch carries the **unnormalised** collapsed state
(so no square roots or divisions occur), the classical records, and a classical weight (confusion-map
randomness).  The probability of a branch is `cw · ‖ψ‖²`.

* measurement (`MeasurementGate` documentation): project on each outcome of the measured qudits
  (Born rule, collapse); the *recorded* value is obtained from the actual outcome by first applying the
  confusion map (a row-stochastic matrix on the listed subset of the measured qudits: row = actual,
  column = reported) and then the invert mask; repeated keys append records.
* classically controlled operation: applied iff every condition holds for the records so far
  (`KeyCondition(key, index)`: some digit of that record is non-zero).
* channel: one branch per Kraus operator; reset = Kraus operators |0⟩⟨k|.
-/
namespace CirqVerif.Circ
open CirqVerif

abbrev Records := List (String × List (List Nat))

def recAppend (r : Records) (k : String) (v : List Nat) : Records :=
  if r.any (·.1 == k) then r.map (fun p => if p.1 == k then (p.1, p.2 ++ [v]) else p) else r ++ [(k, [v])]

def recGet (r : Records) (k : String) : List (List Nat) := (r.find? (·.1 == k)).map (·.2) |>.getD []

/-- conditions of a classically controlled operation -/
inductive Cond where
  | key (k : String) (index : Int)                       -- KeyCondition(key, index): any digit non-zero
  | bitmask (k : String) (index : Int) (target : Nat) (equal : Bool) (mask : Option Nat) (dims : List Nat)
  deriving Repr

def pyGet (l : List α) (i : Int) : Option α :=
  let j := if i < 0 then i + l.length else i
  if j < 0 then none else l[j.toNat]?

def digitsValue (dims digits : List Nat) : Nat :=
  (List.zip digits dims).foldl (fun acc (d, b) => acc * b + d) 0

def Cond.eval (recs : Records) : Cond → Option Bool
  | .key k i => (pyGet (recGet recs k) i).map (fun ds => ds.any (· != 0))
  | .bitmask k i target equal mask dims =>
    (pyGet (recGet recs k) i).map (fun ds =>
      let v := digitsValue (if dims.isEmpty then ds.map (fun _ => 2) else dims) ds
      let v := match mask with | some m => v &&& m | none => v
      if equal then v == target else v != target)

structure Confusion (R : Type) where
  positions : List Nat          -- positions among the measured qudits
  matrix : List (List R)        -- row = actual value (big-endian over positions), column = reported

inductive Op (R : Type) where
  | unitary (m : Array R) (axes : List Nat)
  | measure (key : String) (axes : List Nat) (invert : List Bool) (confusion : List (Confusion R))
  | controlled (conds : List Cond) (op : Op R)
  | kraus (ks : List (Array R)) (axes : List Nat)
  | reset (axes : List Nat)
  /-- projective measurement of an observable given by its eigen-projectors (outcome `i` ↔ `projs[i]`) -/
  | pmeasure (key : String) (projs : List (Array R)) (axes : List Nat)

structure Branch (R : Type) where
  state : Array R
  records : Records
  cw : R

section
variable {R : Type} [Add R] [Mul R] [OfNat R 0] [OfNat R 1] [Inhabited R]
variable (nsq : R → R) (negligible : R → Bool)

def normSq (arr : Array R) : R := arr.foldl (fun acc z => acc + nsq z) 0

/-- keep the amplitudes whose digits at `axes` equal `a` -/
def project (shape axes : List Nat) (a : Idx) (arr : Array R) : Array R :=
  Array.ofFn (n := arr.size) (fun p => if getAxes (unflatten shape p.val) axes == a then arr[p] else 0)

/-- all (reported value, probability) pairs for an actual outcome under the confusion maps -/
def confuse (dims : List Nat) (cms : List (Confusion R)) (actual : Idx) : List (Idx × R) :=
  cms.foldl (fun (acc : List (Idx × R)) cm =>
    acc.flatMap (fun (cur, w) =>
      let sub := cm.positions.map (fun p => actual.getD p 0)
      let subDims := cm.positions.map (fun p => dims.getD p 1)
      let row := cm.matrix.getD (flatIndex subDims sub) []
      (allIdx subDims).filterMap (fun rep =>
        let pr := row.getD (flatIndex subDims rep) 0
        if negligible pr then none else some (setAxes cur cm.positions rep, w * pr)))) [(actual, 1)]

/-- invert mask: a masked digit 0/1 is flipped; digits ≥ 2 of a qudit are left alone (Cirq's rule
`bit ^ (bit < 2 and mask)`; the documentation only speaks of qubits) -/
def applyInvert (inv : List Bool) (v : Idx) : Idx :=
  v.zipIdx.map (fun (d, i) => if inv.getD i false && d < 2 then 1 - d else d)

def stepOp (shape : List Nat) (b : Branch R) : Op R → List (Branch R)
  | .unitary m axes => [{ b with state := stepArr shape b.state { matrix := m, axes := axes } }]
  | .measure key axes inv cms =>
    let dims := axes.map (fun a => shape.getD a 1)
    (allIdx dims).flatMap (fun a =>
      let st := project shape axes a b.state
      if negligible (normSq nsq st) then []
      else (confuse negligible dims cms a).map (fun (rep, w) =>
        { state := st, records := recAppend b.records key (applyInvert inv rep), cw := b.cw * w }))
  | .controlled conds op =>
    if conds.all (fun c => (c.eval b.records).getD false) then stepOp shape b op else [b]
  | .kraus ks axes =>
    ks.filterMap (fun k =>
      let st := stepArr shape b.state { matrix := k, axes := axes }
      if negligible (normSq nsq st) then none else some { b with state := st })
  | .reset axes =>
    let dims := axes.map (fun a => shape.getD a 1)
    -- Kraus operators |0…0⟩⟨a| : project on a, then move the amplitude to the all-zero digits
    (allIdx dims).filterMap (fun a =>
      let st := project shape axes a b.state
      if negligible (normSq nsq st) then none
      else
        let moved : Array R := Array.ofFn (n := st.size) (fun p =>
          let idx := unflatten shape p.val
          if getAxes idx axes == dims.map (fun _ => 0) then st.getD (flatIndex shape (setAxes idx axes a)) 0 else 0)
        some { b with state := moved })
  | .pmeasure key projs axes =>
    projs.zipIdx.filterMap (fun (pm, i) =>
      let st := stepArr shape b.state { matrix := pm, axes := axes }
      if negligible (normSq nsq st) then none else some { b with state := st, records := recAppend b.records key [i] })

def run (shape : List Nat) (init : Array R) (ops : List (Op R)) : List (Branch R) :=
  ops.foldl (fun bs op => bs.flatMap (fun b => stepOp nsq negligible shape b op)) [{ state := init, records := [], cw := 1 }]

end

/-! ### density-matrix evolution (no branching): `ρ ↦ Σₖ Kₖ ρ Kₖ†`

`ρ` is stored as a tensor of shape `shape ++ shape` (row axes, then column axes); a Kraus operator acts with
`K` on the row axes and with its entry-wise conjugate on the column axes. -/

section dm
variable {R : Type} [Add R] [Mul R] [OfNat R 0] [OfNat R 1] [Inhabited R]
variable (conj : R → R)

def addArr (a b : Array R) : Array R := Array.ofFn (n := a.size) (fun p => a[p] + b.getD p.val 0)

def applyKrausDM (shape : List Nat) (rho : Array R) (k : Array R) (axes : List Nat) : Array R :=
  let n := shape.length
  let left := stepArr (shape ++ shape) rho { matrix := k, axes := axes }
  stepArr (shape ++ shape) left { matrix := k.map conj, axes := axes.map (· + n) }

/-- Kraus operators `|0…0⟩⟨a|` of a reset of the given dimensions, as flat row-major matrices -/
def resetKraus (dims : List Nat) : List (Array R) :=
  let d := shapeSize dims
  (List.range d).map (fun a => Array.ofFn (n := d * d) (fun p => if p.val / d = 0 ∧ p.val % d = a then 1 else 0))

def stepDM (shape : List Nat) (rho : Array R) : Op R → Array R
  | .unitary m axes => applyKrausDM conj shape rho m axes
  | .kraus ks axes =>
    ks.foldl (fun acc k => addArr acc (applyKrausDM conj shape rho k axes)) (Array.replicate rho.size 0)
  | .reset axes =>
    (resetKraus (axes.map (fun a => shape.getD a 1))).foldl
      (fun acc k => addArr acc (applyKrausDM conj shape rho k axes)) (Array.replicate rho.size 0)
  | .measure _ axes _ _ =>
    -- a measurement whose result is ignored dephases the measured qudits
    let dims := axes.map (fun a => shape.getD a 1)
    let d := shapeSize dims
    let projs : List (Array R) := (List.range d).map (fun a =>
      Array.ofFn (n := d * d) (fun p => if p.val / d = a ∧ p.val % d = a then 1 else 0))
    projs.foldl (fun acc k => addArr acc (applyKrausDM conj shape rho k axes)) (Array.replicate rho.size 0)
  | .pmeasure _ projs axes =>
    projs.foldl (fun acc k => addArr acc (applyKrausDM conj shape rho k axes)) (Array.replicate rho.size 0)
  | .controlled _ _ => rho

def runDM (shape : List Nat) (rho : Array R) (ops : List (Op R)) : Array R :=
  ops.foldl (stepDM conj shape) rho

end dm
end CirqVerif.Circ
