import CirqVerif.Spec.Qasm
/-!
# Vendor gate definitions (trusted transcription of the vendors' public gate documentation)

* IonQ QIS gates (`x y z h s si t ti v vi rx ry rz cnot swap xx yy zz`, rotations in radians) — generic in the
  angle / amplitude types so that the parameter-free ones can be evaluated exactly (`Props.C17`);
* IonQ native gates (`gpi`, `gpi2`, `ms`, `zz`, phases and angles in turns) — on floats;
* AQT operations (`R(θ, φ)`, `MS(θ)`, `Z(θ)`, angles in units of π) — on floats.

A job payload is a list of applications of these gates to qubit indices; it is interpreted with the reference
array interpreter (`runArr`), qubit `k` of the payload being axis `k`.
-/
namespace CirqVerif.Vendor
open CirqVerif CirqVerif.Qasm

section qis
variable {A R : Type} [Angle A] [Add R] [Mul R] [Neg R] [OfNat R 0] [OfNat R 1]
open Angle

/-- IonQ QIS single- and two-qubit gates as row-major matrices; `iu` is the imaginary unit -/
def qisMatrix (T : Trig A R) (iu : R) (name : String) (θ : A) : Option (Array R) :=
  let hpi : A := half pi
  let r := T.cosHalf hpi            -- 1/√2
  let c := T.cosHalf θ
  let s := T.sinHalf θ
  let mis := -(iu * s)              -- −i sin(θ/2)
  match name with
  | "x" => some #[0, 1, 1, 0]
  | "y" => some #[0, -iu, iu, 0]
  | "z" => some #[1, 0, 0, -1]
  | "h" => some #[r, r, r, -r]
  | "s" => some #[1, 0, 0, iu]
  | "si" => some #[1, 0, 0, -iu]
  | "t" => some #[1, 0, 0, T.cis (half hpi)]
  | "ti" => some #[1, 0, 0, T.cis (neg (half hpi))]
  -- v = √X = ½[[1+i, 1−i], [1−i, 1+i]] = e^{iπ/4}·rx(π/2)
  | "v" => some #[T.cis (half hpi) * r, T.cis (half hpi) * -(iu * r), T.cis (half hpi) * -(iu * r), T.cis (half hpi) * r]
  | "vi" => some #[T.cis (neg (half hpi)) * r, T.cis (neg (half hpi)) * (iu * r), T.cis (neg (half hpi)) * (iu * r), T.cis (neg (half hpi)) * r]
  | "rx" => some #[c, mis, mis, c]
  | "ry" => some #[c, -s, s, c]
  | "rz" => some #[T.cis (neg (half θ)), 0, 0, T.cis (half θ)]
  | "cnot" => some #[1, 0, 0, 0,  0, 1, 0, 0,  0, 0, 0, 1,  0, 0, 1, 0]
  | "swap" => some #[1, 0, 0, 0,  0, 0, 1, 0,  0, 1, 0, 0,  0, 0, 0, 1]
  -- e^{−iθ P⊗P/2}
  | "xx" => some #[c, 0, 0, mis,  0, c, mis, 0,  0, mis, c, 0,  mis, 0, 0, c]
  | "yy" => some #[c, 0, 0, iu * s,  0, c, mis, 0,  0, mis, c, 0,  iu * s, 0, 0, c]
  | "zz" => some #[T.cis (neg (half θ)), 0, 0, 0,  0, T.cis (half θ), 0, 0,  0, 0, T.cis (half θ), 0,  0, 0, 0, T.cis (neg (half θ))]
  | _ => none

end qis

def twoPi : Float := 6.283185307179586

/-- IonQ native gates; phases / angles in turns -/
def nativeMatrix (name : String) (phases : List Float) (angle : Float) : Option (Array CFloat) :=
  let φ0 := phases.getD 0 0; let φ1 := phases.getD 1 0
  let mi : CFloat := ⟨0, -1⟩
  let r : CFloat := ⟨Float.sqrt 0.5, 0⟩
  match name with
  | "gpi" => some #[0, CFloat.cis (-(twoPi * φ0)), CFloat.cis (twoPi * φ0), 0]
  | "gpi2" => some #[r, r * mi * CFloat.cis (-(twoPi * φ0)), r * mi * CFloat.cis (twoPi * φ0), r]
  | "ms" =>
    let c : CFloat := ⟨Float.cos (twoPi * angle / 2), 0⟩
    let s : CFloat := ⟨Float.sin (twoPi * angle / 2), 0⟩
    let e (x : Float) : CFloat := mi * CFloat.cis (twoPi * x) * s
    some #[c, 0, 0, e (-(φ0 + φ1)),  0, c, e (-(φ0 - φ1)), 0,  0, e (φ0 - φ1), c, 0,  e (φ0 + φ1), 0, 0, c]
  | "zz" =>
    let m := CFloat.cis (-(twoPi * angle / 2)); let p := CFloat.cis (twoPi * angle / 2)
    some #[m, 0, 0, 0,  0, p, 0, 0,  0, 0, p, 0,  0, 0, 0, m]
  | _ => none

/-- AQT operations; angles in units of π: `R(θ, φ) = exp(−i θπ/2 (cos φπ X + sin φπ Y))`, `MS(θ) = exp(−i θπ/2 X⊗X)`,
`Z(θ) = exp(−i θπ/2 Z)` -/
def aqtMatrix (name : String) (θ φ : Float) : Option (Array CFloat) :=
  let h := 3.141592653589793 * θ / 2
  let c : CFloat := ⟨Float.cos h, 0⟩
  let s : CFloat := ⟨Float.sin h, 0⟩
  let mi : CFloat := ⟨0, -1⟩
  match name with
  | "R" => some #[c, mi * CFloat.cis (-(3.141592653589793 * φ)) * s, mi * CFloat.cis (3.141592653589793 * φ) * s, c]
  | "MS" => some #[c, 0, 0, mi * s,  0, c, mi * s, 0,  0, mi * s, c, 0,  mi * s, 0, 0, c]
  | "Z" => some #[CFloat.cis (-h), 0, 0, CFloat.cis h]
  | _ => none

/-- Kronecker product of an `n×n` and an `m×m` row-major matrix -/
def kron (n m : Nat) (a b : Array CFloat) : Array CFloat :=
  Array.ofFn (n := (n * m) * (n * m)) (fun p =>
    let r := p.val / (n * m); let c := p.val % (n * m)
    a.getD ((r / m) * n + c / m) 0 * b.getD ((r % m) * m + c % m) 0)

def pauliMat (c : Char) : Array CFloat :=
  match c with
  | 'X' => #[0, 1, 1, 0]
  | 'Y' => #[0, ⟨0, -1⟩, ⟨0, 1⟩, 0]
  | 'Z' => #[1, 0, 0, -1]
  | _ => #[1, 0, 0, 1]

/-- IonQ `pauliexp` with one term: `exp(−i·time·coefficient·P)`; the term string is little-endian with respect to the
target list (its last character acts on the first target), as the IonQ API orders qubits -/
def pauliExpMatrix (term : String) (angle : Float) : Array CFloat :=
  let chars := term.toList.reverse          -- chars[i] acts on targets[i]
  let k := chars.length
  let p := chars.foldl (fun (acc : Nat × Array CFloat) ch => (acc.1 * 2, kron acc.1 2 acc.2 (pauliMat ch))) (1, #[1])
  let dim := 2 ^ k
  let c : CFloat := ⟨Float.cos angle, 0⟩
  let mis : CFloat := ⟨0, -(Float.sin angle)⟩
  Array.ofFn (n := dim * dim) (fun q => (if q.val / dim = q.val % dim then c else 0) + mis * p.2.getD q.val 0)

/-! ### little-endian outcome integers (IonQ histograms)

IonQ reports an outcome as an integer whose bit `k` (least significant = 0) is the value of qubit `k`. -/

def leBits : Nat → Nat → List Nat
  | 0, _ => []
  | n + 1, v => v % 2 :: leBits n (v / 2)

def leValue : List Nat → Nat
  | [] => 0
  | b :: bs => b + 2 * leValue bs

end CirqVerif.Vendor
