/-!
# Documented matrices of the gate library (hand transcription of the docstrings — trusted base)

Each definition transcribes the closed form printed in the gate's docstring (cirq-core/cirq/ops/*.py,
cirq_google/ops, cirq_ionq/ionq_native_gates.py), in the documented big-endian qubit order, for a
global shift `s` multiplied in as `e^{iπ t s}` (the `EigenGate` convention the docstrings refer to).
Polymorphic in the scalar type `R` and the parameter type `A` through an environment of the
elementary functions the documentation uses; run on `CFloat`/`Float` for comparison with
`cirq.unitary`, and instantiated abstractly in theorems.
-/
namespace CirqVerif.GateDocs

structure Env (A R : Type) where
  I : R                 -- imaginary unit
  half : R              -- 1/2
  isq2 : R              -- 1/√2
  ph : A → R            -- e^{iπa}
  cosπ : A → R          -- cos(πa)
  sinπ : A → R          -- sin(πa)
  cis : A → R           -- e^{ia}   (radians)
  cos : A → R           -- cos(a)   (radians)
  sin : A → R           -- sin(a)   (radians)
  sqrt : A → R          -- √a for a ≥ 0 (channels)
  halfA : A             -- 1/2 as a parameter
  twoA : A              -- 2 as a parameter
  oneA : A              -- 1 as a parameter

abbrev M (R : Type) := List (List R)

section
variable {A R : Type} [Add A] [Mul A] [Neg A] [Sub A] [Add R] [Mul R] [Neg R] [Sub R] [OfNat R 0] [OfNat R 1]
variable (E : Env A R)

def smul (c : R) (m : M R) : M R := m.map (fun row => row.map (fun x => c * x))

def eye (n : Nat) : M R := (List.range n).map (fun i => (List.range n).map (fun j => if i = j then 1 else 0))

def diag (ds : List R) : M R :=
  ds.zipIdx.map (fun (d, i) => (List.range ds.length).map (fun j => if i = j then d else 0))

/-- put a 2×2 / 4×4 block at the bottom right of an identity (controlled gates) -/
def blockBottomRight (n : Nat) (b : M R) : M R :=
  let k := b.length
  (List.range n).map (fun i => (List.range n).map (fun j =>
    if i < n - k ∨ j < n - k then (if i = j then 1 else 0)
    else ((b.getD (i - (n - k)) []).getD (j - (n - k)) 0)))

/-- `XPowGate(exponent=t, global_shift=s)` -/
def xpow (t s : A) : M R :=
  let c := E.cosπ (t * E.halfA); let sn := E.sinπ (t * E.halfA)
  smul (E.ph (t * (s + E.halfA))) [[c, -(E.I * sn)], [-(E.I * sn), c]]

/-- `YPowGate(exponent=t, global_shift=s)` -/
def ypow (t s : A) : M R :=
  let c := E.cosπ (t * E.halfA); let sn := E.sinπ (t * E.halfA)
  smul (E.ph (t * (s + E.halfA))) [[c, -sn], [sn, c]]

/-- `ZPowGate(exponent=t, global_shift=s)` -/
def zpow (t s : A) : M R := smul (E.ph (t * s)) [[1, 0], [0, E.ph t]]

/-- `HPowGate(exponent=t, global_shift=s)` -/
def hpow (t s : A) : M R :=
  let c := E.cosπ (t * E.halfA); let sn := E.sinπ (t * E.halfA)
  let o := E.I * sn * E.isq2
  smul (E.ph (t * (s + E.halfA))) [[c - o, -o], [-o, c + o]]

/-- `Rx(rads)`, `Ry(rads)`, `Rz(rads)` -/
def rx (r : A) : M R :=
  let c := E.cos (r * E.halfA); let sn := E.sin (r * E.halfA)
  [[c, -(E.I * sn)], [-(E.I * sn), c]]
def ry (r : A) : M R :=
  let c := E.cos (r * E.halfA); let sn := E.sin (r * E.halfA)
  [[c, -sn], [sn, c]]
def rz (r : A) : M R := [[E.cis (-(r * E.halfA)), 0], [0, E.cis (r * E.halfA)]]

/-- `CZPowGate(exponent=t, global_shift=s)` -/
def czpow (t s : A) : M R := smul (E.ph (t * s)) (diag [1, 1, 1, E.ph t])

/-- the `g c`, `-i g s` block used by CX / SWAP / CCX documentation -/
def xblock (t : A) : M R :=
  let c := E.cosπ (t * E.halfA); let sn := E.sinπ (t * E.halfA); let g := E.ph (t * E.halfA)
  [[g * c, -(E.I * g * sn)], [-(E.I * g * sn), g * c]]

/-- `CXPowGate(exponent=t, global_shift=s)` -/
def cxpow (t s : A) : M R := smul (E.ph (t * s)) (blockBottomRight 4 (xblock E t))

/-- `SwapPowGate(exponent=t, global_shift=s)` -/
def swappow (t s : A) : M R :=
  let b := xblock E t
  let a := (b.getD 0 []).getD 0 0; let o := (b.getD 0 []).getD 1 0
  smul (E.ph (t * s)) [[1, 0, 0, 0], [0, a, o, 0], [0, o, a, 0], [0, 0, 0, 1]]

/-- `ISwapPowGate(exponent=t, global_shift=s)` -/
def iswappow (t s : A) : M R :=
  let c := E.cosπ (t * E.halfA); let sn := E.sinπ (t * E.halfA)
  smul (E.ph (t * s)) [[1, 0, 0, 0], [0, c, E.I * sn, 0], [0, E.I * sn, c, 0], [0, 0, 0, 1]]

/-- `XXPowGate`, `YYPowGate`, `ZZPowGate` -/
def xxpow (t s : A) : M R :=
  let f := E.ph (t * E.halfA)
  let c := f * E.cosπ (t * E.halfA); let sn := -(E.I * f * E.sinπ (t * E.halfA))
  smul (E.ph (t * s)) [[c, 0, 0, sn], [0, c, sn, 0], [0, sn, c, 0], [sn, 0, 0, c]]
def yypow (t s : A) : M R :=
  let f := E.ph (t * E.halfA)
  let c := f * E.cosπ (t * E.halfA); let sn := -(E.I * f * E.sinπ (t * E.halfA))
  smul (E.ph (t * s)) [[c, 0, 0, -sn], [0, c, sn, 0], [0, sn, c, 0], [-sn, 0, 0, c]]
def zzpow (t s : A) : M R := smul (E.ph (t * s)) (diag [1, E.ph t, E.ph t, 1])

/-- `cirq.ms(rads)` / `MSGate`: exp(-i t XX) -/
def ms (r : A) : M R :=
  let c := E.cos r; let sn := -(E.I * E.sin r)
  [[c, 0, 0, sn], [0, c, sn, 0], [0, sn, c, 0], [sn, 0, 0, c]]

/-- `FSimGate(theta, phi)` -/
def fsim (θ φ : A) : M R :=
  let a := E.cos θ; let b := -(E.I * E.sin θ); let c := E.cis (-φ)
  [[1, 0, 0, 0], [0, a, b, 0], [0, b, a, 0], [0, 0, 0, c]]

/-- `PhasedFSimGate(theta, zeta, chi, gamma, phi)` -/
def phasedfsim (θ ζ χ γ φ : A) : M R :=
  [[1, 0, 0, 0],
   [0, E.cis (-γ - ζ) * E.cos θ, -(E.I * E.cis (-γ + χ) * E.sin θ), 0],
   [0, -(E.I * E.cis (-γ - χ) * E.sin θ), E.cis (-γ + ζ) * E.cos θ, 0],
   [0, 0, 0, E.cis (-(E.twoA * γ) - φ)]]

/-- `PhasedXPowGate(exponent=t, phase_exponent=p, global_shift=s)` -/
def phasedx (t p s : A) : M R :=
  let c := E.cosπ (t * E.halfA); let sn := E.sinπ (t * E.halfA)
  smul (E.ph (t * s))
    [[E.ph (t * E.halfA) * c, -(E.I * E.ph (t * E.halfA - p) * sn)],
     [-(E.I * E.ph (t * E.halfA + p) * sn), E.ph (t * E.halfA) * c]]

/-- `PhasedXZGate(x_exponent=x, z_exponent=z, axis_phase_exponent=a)` -/
def phasedxz (x z a : A) : M R :=
  let c := E.cosπ (x * E.halfA); let sn := E.sinπ (x * E.halfA)
  [[E.ph (x * E.halfA) * c, -(E.I * E.ph (x * E.halfA - a) * sn)],
   [-(E.I * E.ph (x * E.halfA + z + a) * sn), E.ph (x * E.halfA + z) * c]]

/-- `PhasedISwapPowGate(phase_exponent=p, exponent=t)` -/
def phasediswap (p t : A) : M R :=
  let c := E.cosπ (t * E.halfA); let sn := E.sinπ (t * E.halfA)
  let f := E.ph (E.twoA * p); let fc := E.ph (-(E.twoA * p))
  [[1, 0, 0, 0], [0, c, E.I * sn * f, 0], [0, E.I * sn * fc, c, 0], [0, 0, 0, 1]]

/-- `CCZPowGate`, `CCXPowGate` (bottom-right block is the matrix of `X**t`), `CSWAP` -/
def cczpow (t s : A) : M R := smul (E.ph (t * s)) (diag [1, 1, 1, 1, 1, 1, 1, E.ph t])
def ccxpow (t s : A) : M R := smul (E.ph (t * s)) (blockBottomRight 8 (xblock E t))
def cswap : M R :=
  [[1,0,0,0,0,0,0,0],[0,1,0,0,0,0,0,0],[0,0,1,0,0,0,0,0],[0,0,0,1,0,0,0,0],
   [0,0,0,0,1,0,0,0],[0,0,0,0,0,0,1,0],[0,0,0,0,0,1,0,0],[0,0,0,0,0,0,0,1]]

/-- diagonal gates: `diag(e^{i angle_k})` -/
def diagGate (angles : List A) : M R := diag (angles.map E.cis)

/-- `GlobalPhaseGate(c)` is the 1×1 matrix `[c]`; here for a phase given in half turns -/
def globalPhase (t : A) : M R := [[E.ph t]]

/-- IonQ native gates -/
def gpi (φ : A) : M R := [[0, E.ph (-(E.twoA * φ))], [E.ph (E.twoA * φ), 0]]
def gpi2 (φ : A) : M R :=
  smul E.isq2 [[1, -(E.I * E.ph (-(E.twoA * φ)))], [-(E.I * E.ph (E.twoA * φ)), 1]]
def ionqMS (φ0 φ1 θ : A) : M R :=
  let c := E.cosπ θ; let sn := E.sinπ θ
  [[c, 0, 0, -(E.I * E.ph (-(E.twoA * (φ0 + φ1))) * sn)],
   [0, c, -(E.I * E.ph (-(E.twoA * (φ0 - φ1))) * sn), 0],
   [0, -(E.I * E.ph (E.twoA * (φ0 - φ1)) * sn), c, 0],
   [-(E.I * E.ph (E.twoA * (φ0 + φ1)) * sn), 0, 0, c]]
def ionqZZ (θ : A) : M R := diag [E.ph (-θ), E.ph θ, E.ph θ, E.ph (-θ)]

/-! ### channels: documented Kraus operators -/
def pauliX : M R := [[0, 1], [1, 0]]
def pauliY : M R := [[0, -E.I], [E.I, 0]]
def pauliZ : M R := [[1, 0], [0, -1]]

/-- `bit_flip(p)`, `phase_flip(p)`: √(1-p)·I, √p·X resp. Z -/
def bitFlip (p : A) : List (M R) := [smul (E.sqrt (E.oneA - p)) (eye 2), smul (E.sqrt p) pauliX]
def phaseFlip (p : A) : List (M R) := [smul (E.sqrt (E.oneA - p)) (eye 2), smul (E.sqrt p) pauliZ]
/-- `amplitude_damp(γ)` -/
def amplitudeDamp (γ : A) : List (M R) := [[[1, 0], [0, E.sqrt (E.oneA - γ)]], [[0, E.sqrt γ], [0, 0]]]
/-- `phase_damp(γ)` -/
def phaseDamp (γ : A) : List (M R) := [[[1, 0], [0, E.sqrt (E.oneA - γ)]], [[0, 0], [0, E.sqrt γ]]]
/-- `asymmetric_depolarize(px, py, pz)` -/
def asymDepolarize (px py pz : A) : List (M R) :=
  [smul (E.sqrt (E.oneA - px - py - pz)) (eye 2), smul (E.sqrt px) pauliX,
   smul (E.sqrt py) (pauliY E), smul (E.sqrt pz) pauliZ]
/-- `generalized_amplitude_damp(p, γ)` -/
def genAmplitudeDamp (p γ : A) : List (M R) :=
  [smul (E.sqrt p) [[1, 0], [0, E.sqrt (E.oneA - γ)]], smul (E.sqrt p) [[0, E.sqrt γ], [0, 0]],
   smul (E.sqrt (E.oneA - p)) [[E.sqrt (E.oneA - γ), 0], [0, 1]], smul (E.sqrt (E.oneA - p)) [[0, 0], [E.sqrt γ, 0]]]
/-- `ResetChannel` on a qubit -/
def reset : List (M R) := [[[1, 0], [0, 0]], [[0, 1], [0, 0]]]

end
end CirqVerif.GateDocs
