import CirqVerif.Spec.GateDocs
/-!
# Documented matrices of the gate library, part 2 (hand transcription — trusted base)

Families whose size is a parameter: qudit clock / shift gates, the quantum Fourier transform, phase gradients,
qubit permutations, Boolean Hamiltonian gates, n-qubit depolarizing channels, Pauli-string error channels,
qudit reset, measurement projectors and `RandomGateChannel`.  Same conventions as `GateDocs` (big-endian
order, global shift multiplied in as `e^{iπ t s}`); the extra elementary functions are rational numbers.
-/
namespace CirqVerif.GateDocs

structure Env2 (A R : Type) extends Env A R where
  ratA : Nat → Nat → A           -- p/q as a parameter
  ratR : Nat → Nat → R           -- p/q as a scalar
  scaleA : A → Nat → Nat → A     -- a·p/q

section
variable {A R : Type} [Add A] [Mul A] [Neg A] [Sub A] [Add R] [Mul R] [Neg R] [Sub R] [OfNat R 0] [OfNat R 1]
variable (E : Env2 A R)

def sumR (l : List R) : R := l.foldl (· + ·) 0

/-- Kronecker product -/
def kron (a b : M R) : M R :=
  a.flatMap (fun ra => b.map (fun rb => ra.flatMap (fun x => rb.map (fun y => x * y))))

def kronAll (ms : List (M R)) : M R := ms.foldl kron [[1]]

/-- qudit clock gate `ZPowGate(dimension=d, exponent=t, global_shift=s)`: `Z = Σₖ ωᵏ |k⟩⟨k|`, `ω = e^{2πi/d}`,
powers on the principal eigen-phases `2k/d ∈ [0, 2)` half turns -/
def quditZ (d : Nat) (t s : A) : M R :=
  diag ((List.range d).map (fun k => E.ph (t * (E.ratA (2 * k) d + s))))

/-- qudit shift gate `XPowGate(dimension=d, …)`: `X|k⟩ = |k+1 mod d⟩ = F† Z F`; entry `[j][k]` of `Xᵗ` is
`(1/d) Σₘ e^{iπ t (2m/d + s)} ω^{m (k - j)}` -/
def quditX (d : Nat) (t s : A) : M R :=
  (List.range d).map (fun j => (List.range d).map (fun k =>
    E.ratR 1 d * sumR ((List.range d).map (fun m =>
      E.ph (t * (E.ratA (2 * m) d + s)) * E.ph (E.ratA (2 * (m * ((k + d - j) % d))) d)))))

/-- reversal of the `n` low bits -/
def bitReverse (n x : Nat) : Nat :=
  (List.range n).foldl (fun acc i => acc + (if x / 2 ^ i % 2 = 1 then 2 ^ (n - 1 - i) else 0)) 0

/-- `QuantumFourierTransformGate(n)`: `2^{-n/2} Σ ω^{xy} |x⟩⟨y|`, `ω = e^{2πi/2ⁿ}`; `without_reverse` leaves the
output qubits in reversed order -/
def qft (n : Nat) (withoutReverse : Bool) : M R :=
  let N := 2 ^ n
  (List.range N).map (fun x => (List.range N).map (fun y =>
    let x' := if withoutReverse then bitReverse n x else x
    E.sqrt (E.ratA 1 N) * E.ph (E.ratA (2 * (x' * y)) N)))

/-- `PhaseGradientGate(num_qubits=n, exponent=t)`: `Σₓ ω^{x t} |x⟩⟨x|` -/
def phaseGradient (n : Nat) (t : A) : M R :=
  let N := 2 ^ n
  diag ((List.range N).map (fun x => E.ph (E.scaleA t (2 * x) N)))

/-- bit `i` (big-endian, `n` bits) of `x` -/
def bitBE (n i x : Nat) : Nat := x / 2 ^ (n - 1 - i) % 2

/-- `QubitPermutationGate(perm)`: the content of qubit `i` goes to qubit `perm[i]` -/
def qubitPermutation (perm : List Nat) : M R :=
  let n := perm.length
  (List.range (2 ^ n)).map (fun y => (List.range (2 ^ n)).map (fun x =>
    if (List.range n).all (fun i => bitBE n (perm.getD i 0) y == bitBE n i x) then 1 else 0))

/-- `BooleanHamiltonianGate(names, exprs, θ)`, up to global phase: `Σₓ e^{-i θ/2 · #{k : fₖ(x)}} |x⟩⟨x|`;
`counts[x]` is the number of expressions true at `x` -/
def booleanHamiltonian (θ : A) (counts : List Nat) : M R :=
  diag (counts.map (fun c => E.cis (-(E.scaleA θ c 2))))

/-- `givens(a)` -/
def givens (a : A) : M R :=
  [[1, 0, 0, 0], [0, E.cos a, -(E.sin a), 0], [0, E.sin a, E.cos a, 0], [0, 0, 0, 1]]

/-- `riswap(r)`: `exp(+i r (X⊗X + Y⊗Y)/2)` -/
def riswap (r : A) : M R :=
  [[1, 0, 0, 0], [0, E.cos r, E.I * E.sin r, 0], [0, E.I * E.sin r, E.cos r, 0], [0, 0, 0, 1]]

/-- `cphase(r)` -/
def cphase (r : A) : M R := diag [1, 1, 1, E.cis r]

/-- `Y**t` block: `g [[c, -s], [s, c]]`, `g = e^{iπt/2}` -/
def yblock (t : A) : M R :=
  let c := E.cosπ (t * E.halfA); let sn := E.sinπ (t * E.halfA); let g := E.ph (t * E.halfA)
  [[g * c, -(g * sn)], [g * sn, g * c]]

/-- `CYPowGate(exponent=t, global_shift=s)`, `CCYPowGate` -/
def cypow (t s : A) : M R := smul (E.ph (t * s)) (blockBottomRight 4 (yblock E t))
def ccypow (t s : A) : M R := smul (E.ph (t * s)) (blockBottomRight 8 (yblock E t))

/-- `ParallelGate(sub, n)`: `sub ⊗ … ⊗ sub` -/
def parallel (sub : M R) (n : Nat) : M R := kronAll (List.replicate n sub)

def madd2 (a b : M R) : M R := List.zipWith (List.zipWith (· + ·)) a b

/-- projector on the -1 (`invert = false`) or +1 (`invert = true`) eigenvector of a Pauli -/
def pauliProj (k : Nat) (invert : Bool) : M R :=
  let sgn : R := if invert then E.half else -E.half
  madd2 (smul E.half (eye 2)) (smul sgn (match k with | 1 => pauliX | 2 => pauliY E.toEnv | _ => pauliZ))

/-- `PauliInteractionGate(p0, invert0, p1, invert1, exponent=t)`: phases the product of the two conditions by `e^{iπt}`,
`I + (e^{iπt} - 1) Π₀ ⊗ Π₁` (`CZ` is `(Z, False, Z, False)`) -/
def pauliInteraction (p0 : Nat) (i0 : Bool) (p1 : Nat) (i1 : Bool) (t : A) : M R :=
  madd2 (eye 4) (smul (E.ph t - 1) (kron (pauliProj E p0 i0) (pauliProj E p1 i1)))

/-- first column of `UniformSuperpositionGate(m, n)`: `M^{-1/2} Σ_{j<M} |j⟩` -/
def uniformSuperposition (m n : Nat) : List R :=
  (List.range (2 ^ n)).map (fun j => if j < m then E.sqrt (E.ratA 1 m) else 0)

/-! ### channels -/
/-- `StatePreparationChannel(ψ)`: `M_k = |ψ⟩⟨k|` -/
def statePreparation (psi : List R) : List (M R) :=
  (List.range psi.length).map (fun k => psi.map (fun a => (List.range psi.length).map (fun j => if j = k then a else 0)))

/-- `MixedUnitaryChannel([(p, U), …])`: `√p U` -/
def mixedUnitary (terms : List (A × M R)) : List (M R) := terms.map (fun (p, u) => smul (E.sqrt p) u)

def pauliOf (k : Nat) : M R :=
  match k with
  | 0 => eye 2
  | 1 => pauliX
  | 2 => pauliY E.toEnv
  | _ => pauliZ

/-- digits of `x` in base 4, `n` of them, most significant first -/
def base4 (n x : Nat) : List Nat := (List.range n).map (fun i => x / 4 ^ (n - 1 - i) % 4)

/-- `depolarize(p, n_qubits=n)`: `ρ → (1-p) ρ + p/(4ⁿ-1) Σ_{P ≠ I} P ρ P` -/
def depolarize (p : A) (n : Nat) : List (M R) :=
  smul (E.sqrt (E.oneA - p)) (eye (2 ^ n)) ::
    ((List.range (4 ^ n)).drop 1).map (fun x =>
      smul (E.sqrt (E.scaleA p 1 (4 ^ n - 1))) (kronAll ((base4 n x).map (pauliOf E))))

/-- `asymmetric_depolarize(error_probabilities={'XI': p₁, …})`: `ρ → Σ pₛ Pₛ ρ Pₛ` -/
def pauliMixture (terms : List (List Nat × A)) : List (M R) :=
  terms.map (fun (s, p) => smul (E.sqrt p) (kronAll (s.map (pauliOf E))))

/-- `ResetChannel(dimension=d)`: `M_k = |0⟩⟨k|` -/
def resetD (d : Nat) : List (M R) :=
  (List.range d).map (fun k => (List.range d).map (fun i => (List.range d).map (fun j => if i = 0 ∧ j = k then 1 else 0)))

/-- measurement of qids of total dimension `N`: the projectors `|k⟩⟨k|` -/
def measureProjectors (N : Nat) : List (M R) :=
  (List.range N).map (fun k => (List.range N).map (fun i => (List.range N).map (fun j => if i = k ∧ j = k then 1 else 0)))

/-- `gate.with_probability(p)`: the sub-gate's operators with weight `p`, otherwise nothing happens on the
`dim`-dimensional space the sub-gate acts on -/
def randomGate (p : A) (sub : List (M R)) (dim : Nat) : List (M R) :=
  sub.map (smul (E.sqrt p)) ++ [smul (E.sqrt (E.oneA - p)) (eye dim)]

end
end CirqVerif.GateDocs
