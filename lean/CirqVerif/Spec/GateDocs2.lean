import CirqVerif.Spec.GateDocs
/-!
# Documented matrices of the gate library, part 2 (hand transcription — trusted base)

Families whose size is a parameter: qudit clock / shift gates, the quantum Fourier transform, phase gradients,
qubit permutations, Boolean Hamiltonian gates, n-qubit depolarizing channels, Pauli-string error channels,
qudit reset, measurement projectors and `RandomGateChannel`.  Same conventions as `GateDocs` (big-endian
order, global shift multiplied in as `e^{iπ t s}`); the extra elementary functions are rational numbers.
-/
namespace CirqVerif.GateDocs

structure Env2 (A R : Type) extends Env A R where
  ratA : Nat → Nat → A           -- p/q as a parameter
  ratR : Nat → Nat → R           -- p/q as a scalar
  scaleA : A → Nat → Nat → A     -- a·p/q

section
variable {A R : Type} [Add A] [Mul A] [Neg A] [Sub A] [Add R] [Mul R] [Neg R] [Sub R] [OfNat R 0] [OfNat R 1]
variable (E : Env2 A R)

def sumR (l : List R) : R := l.foldl (· + ·) 0

/-- Kronecker product -/
def kron (a b : M R) : M R :=
  a.flatMap (fun ra => b.map (fun rb => ra.flatMap (fun x => rb.map (fun y => x * y))))

def kronAll (ms : List (M R)) : M R := ms.foldl kron [[1]]

/-- qudit clock gate `ZPowGate(dimension=d, exponent=t, global_shift=s)`: `Z = Σₖ ωᵏ |k⟩⟨k|`, `ω = e^{2πi/d}`,
powers on the principal eigen-phases `2k/d ∈ [0, 2)` half turns -/
def quditZ (d : Nat) (t s : A) : M R :=
  diag ((List.range d).map (fun k => E.ph (t * (E.ratA (2 * k) d + s))))

/-- qudit shift gate `XPowGate(dimension=d, …)`: `X|k⟩ = |k+1 mod d⟩ = F† Z F`; entry `[j][k]` of `Xᵗ` is
`(1/d) Σₘ e^{iπ t (2m/d + s)} ω^{m (k - j)}` -/
def quditX (d : Nat) (t s : A) : M R :=
  (List.range d).map (fun j => (List.range d).map (fun k =>
    E.ratR 1 d * sumR ((List.range d).map (fun m =>
      E.ph (t * (E.ratA (2 * m) d + s)) * E.ph (E.ratA (2 * (m * ((k + d - j) % d))) d)))))

/-- reversal of the `n` low bits -/
def bitReverse (n x : Nat) : Nat :=
  (List.range n).foldl (fun acc i => acc + (if x / 2 ^ i % 2 = 1 then 2 ^ (n - 1 - i) else 0)) 0

/-- `QuantumFourierTransformGate(n)`: `2^{-n/2} Σ ω^{xy} |x⟩⟨y|`, `ω = e^{2πi/2ⁿ}`; `without_reverse` leaves the
output qubits in reversed order -/
def qft (n : Nat) (withoutReverse : Bool) : M R :=
  let N := 2 ^ n
  (List.range N).map (fun x => (List.range N).map (fun y =>
    let x' := if withoutReverse then bitReverse n x else x
    E.sqrt (E.ratA 1 N) * E.ph (E.ratA (2 * (x' * y)) N)))

/-- `PhaseGradientGate(num_qubits=n, exponent=t)`: `Σₓ ω^{x t} |x⟩⟨x|` -/
def phaseGradient (n : Nat) (t : A) : M R :=
  let N := 2 ^ n
  diag ((List.range N).map (fun x => E.ph (E.scaleA t (2 * x) N)))

/-- bit `i` (big-endian, `n` bits) of `x` -/
def bitBE (n i x : Nat) : Nat := x / 2 ^ (n - 1 - i) % 2

/-- `QubitPermutationGate(perm)`: the content of qubit `i` goes to qubit `perm[i]` -/
def qubitPermutation (perm : List Nat) : M R :=
  let n := perm.length
  (List.range (2 ^ n)).map (fun y => (List.range (2 ^ n)).map (fun x =>
    if (List.range n).all (fun i => bitBE n (perm.getD i 0) y == bitBE n i x) then 1 else 0))

/-- `BooleanHamiltonianGate(names, exprs, θ)`, up to global phase: `Σₓ e^{-i θ/2 · #{k : fₖ(x)}} |x⟩⟨x|`;
`counts[x]` is the number of expressions true at `x` -/
def booleanHamiltonian (θ : A) (counts : List Nat) : M R :=
  diag (counts.map (fun c => E.cis (-(E.scaleA θ c 2))))

/-- `givens(a)` -/
def givens (a : A) : M R :=
  [[1, 0, 0, 0], [0, E.cos a, -(E.sin a), 0], [0, E.sin a, E.cos a, 0], [0, 0, 0, 1]]

/-- `riswap(r)`: `exp(+i r (X⊗X + Y⊗Y)/2)` -/
def riswap (r : A) : M R :=
  [[1, 0, 0, 0], [0, E.cos r, E.I * E.sin r, 0], [0, E.I * E.sin r, E.cos r, 0], [0, 0, 0, 1]]

/-- `cphase(r)` -/
def cphase (r : A) : M R := diag [1, 1, 1, E.cis r]

/-! ### channels -/
def pauliOf (k : Nat) : M R :=
  match k with
  | 0 => eye 2
  | 1 => pauliX
  | 2 => pauliY E.toEnv
  | _ => pauliZ

/-- digits of `x` in base 4, `n` of them, most significant first -/
def base4 (n x : Nat) : List Nat := (List.range n).map (fun i => x / 4 ^ (n - 1 - i) % 4)

/-- `depolarize(p, n_qubits=n)`: `ρ → (1-p) ρ + p/(4ⁿ-1) Σ_{P ≠ I} P ρ P` -/
def depolarize (p : A) (n : Nat) : List (M R) :=
  smul (E.sqrt (E.oneA - p)) (eye (2 ^ n)) ::
    ((List.range (4 ^ n)).drop 1).map (fun x =>
      smul (E.sqrt (E.scaleA p 1 (4 ^ n - 1))) (kronAll ((base4 n x).map (pauliOf E))))

/-- `asymmetric_depolarize(error_probabilities={'XI': p₁, …})`: `ρ → Σ pₛ Pₛ ρ Pₛ` -/
def pauliMixture (terms : List (List Nat × A)) : List (M R) :=
  terms.map (fun (s, p) => smul (E.sqrt p) (kronAll (s.map (pauliOf E))))

/-- `ResetChannel(dimension=d)`: `M_k = |0⟩⟨k|` -/
def resetD (d : Nat) : List (M R) :=
  (List.range d).map (fun k => (List.range d).map (fun i => (List.range d).map (fun j => if i = 0 ∧ j = k then 1 else 0)))

/-- measurement of qids of total dimension `N`: the projectors `|k⟩⟨k|` -/
def measureProjectors (N : Nat) : List (M R) :=
  (List.range N).map (fun k => (List.range N).map (fun i => (List.range N).map (fun j => if i = k ∧ j = k then 1 else 0)))

/-- `gate.with_probability(p)`: the sub-gate's operators with weight `p`, otherwise nothing happens on the
`dim`-dimensional space the sub-gate acts on -/
def randomGate (p : A) (sub : List (M R)) (dim : Nat) : List (M R) :=
  sub.map (smul (E.sqrt p)) ++ [smul (E.sqrt (E.oneA - p)) (eye dim)]

end
end CirqVerif.GateDocs
