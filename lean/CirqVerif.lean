import CirqVerif.Props.C18
import CirqVerif.Props.C18Views
import CirqVerif.Props.C05
import CirqVerif.Props.C01
