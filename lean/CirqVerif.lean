import CirqVerif.Props.C01
import CirqVerif.Props.C03
import CirqVerif.Props.C04
import CirqVerif.Props.C05
import CirqVerif.Props.C08
import CirqVerif.Props.C18
import CirqVerif.Props.C18Views
import CirqVerif.Obligations.C03
