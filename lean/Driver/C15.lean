import Driver.Util
import CirqVerif.Model.C15
/-! line-protocol handler for C15 -/
namespace Driver.C15
open Lean Driver CirqVerif.C15

def handle (op : String) (j : Json) : R Json := do
  match op with
  | "canonicalize" =>
    let q ← intF j "q"
    let v ← listF asInt j "v"
    let r := canonicalize q { x := v.getD 0 0, y := v.getD 1 0, z := v.getD 2 0 }
    return jList jInt [r.x, r.y, r.z]
  | _ => throw s!"unknown op {op}"

end Driver.C15
