import Lean.Data.Json
/-! JSON helpers for the line-protocol drivers (not part of any model). -/
namespace Driver
open Lean

abbrev R := Except String

def field (j : Json) (k : String) : R Json :=
  match j.getObjVal? k with
  | .ok v => .ok v
  | .error _ => .error s!"missing field {k}"

def asNat (j : Json) : R Nat :=
  match j.getInt? with
  | .ok i => if i < 0 then .error "negative" else .ok i.toNat
  | .error e => .error e
def asInt (j : Json) : R Int := j.getInt?
def asStr (j : Json) : R String := j.getStr?
def asBool (j : Json) : R Bool := j.getBool?
def asArr (j : Json) : R (List Json) := do return (← j.getArr?).toList
def asList (f : Json → R α) (j : Json) : R (List α) := do (← asArr j).mapM f

def natF (j : Json) (k : String) : R Nat := do asNat (← field j k)
def intF (j : Json) (k : String) : R Int := do asInt (← field j k)
def strF (j : Json) (k : String) : R String := do asStr (← field j k)
def boolF (j : Json) (k : String) : R Bool := do asBool (← field j k)
def listF (f : Json → R α) (j : Json) (k : String) : R (List α) := do asList f (← field j k)
def optF (j : Json) (k : String) : Option Json :=
  match j.getObjVal? k with
  | .ok Json.null => none
  | .ok v => some v
  | .error _ => none

def jNat (n : Nat) : Json := Json.num (JsonNumber.fromNat n)
def jInt (n : Int) : Json := Json.num (JsonNumber.fromInt n)
def jList (f : α → Json) (l : List α) : Json := Json.arr (l.map f).toArray
def jStr (s : String) : Json := Json.str s
def jBool (b : Bool) : Json := Json.bool b
def jErr (s : String) : Json := Json.mkObj [("err", Json.str s)]
def jOk (v : Json) : Json := Json.mkObj [("ok", v)]


/-- floats cross the line protocol as their IEEE-754 bit patterns (exact in both directions) -/
def pFloat (j : Json) : R Float := do
  let n ← asNat j
  return Float.ofBits n.toUInt64
def jFloat (x : Float) : Json := jNat x.toBits.toNat

end Driver
