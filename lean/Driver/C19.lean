import Driver.Util
import Driver.C01
import Driver.C02
import CirqVerif.Spec.Qasm
/-! line-protocol handler for C19: interpret a parsed OpenQASM program with the `qelib1.inc` semantics -/
namespace Driver.C19
open Lean Driver CirqVerif CirqVerif.Qasm

partial def pStmt (j : Json) : R (Stmt Float) := do
  let kind ← strF j "kind"
  match kind with
  | "gate" => return .gate (← strF j "name") (← listF pFloat j "params") (← listF asNat j "qs")
  | "measure" => return .measure (← natF j "q") (← strF j "creg") (← natF j "bit")
  | "if" => return .cond (← strF j "creg") (← natF j "value") (← boolF j "equal") (← pStmt (← field j "body"))
  | "reset" => return .reset (← natF j "q")
  | _ => throw s!"unknown statement kind {kind}"

def jCregs (c : List (String × List Nat)) : Json :=
  Json.arr (c.map (fun (n, bits) => Json.arr #[jStr n, jList jNat bits])).toArray

def handle (op : String) (j : Json) : R Json := do
  let nq ← natF j "nq"
  let stmts ← listF pStmt j "stmts"
  -- version "3" restricts the gate names to stdgates.inc
  let strict3 := match optF j "stdgates3" with | some (Json.bool true) => true | _ => false
  let rec names : Stmt Float → List String
    | .gate n _ _ => [n]
    | .cond _ _ _ b => names b
    | _ => []
  if strict3 then
    match (stmts.flatMap names).find? (fun n => !stdgates3.contains n) with
    | some n => return Json.mkObj [("undefined_gate", jStr n)]
    | none => pure ()
  match op with
  | "unitary" =>
    -- measurement-free program: matrix columns
    let gates ← stmts.mapM (fun s => match s with
      | .gate n ps qs => pure (n, ps, qs)
      | _ => throw "unitary: non-gate statement")
    match gates.find? (fun g => (expandGate (A := Float) g.1 g.2.1 g.2.2).isNone) with
    | some g => return Json.mkObj [("undefined_gate", jStr g.1)]
    | none =>
      match gateListColumns floatTrig nq gates with
      | none => return Json.mkObj [("undefined_gate", jStr "?")]
      | some cols =>
        let n := 2 ^ nq
        let rows := (List.range n).map (fun r => cols.map (fun c => c.getD r 0))
        return Json.mkObj [("matrix", jList (jList Driver.C01.jC) rows)]
  | "dist" =>
    let cregs ← listF (fun c => do
      let l ← asArr c
      return ((← asStr (l.getD 0 Json.null)), (← asNat (l.getD 1 Json.null)))) j "cregs"
    let n := 2 ^ nq
    let init : Array CFloat := (Array.replicate n (0 : CFloat)).set! 0 1
    match runProgram floatTrig Driver.C02.nsqF Driver.C02.negl nq cregs init stmts with
    | .error (.undefinedGate g) => return Json.mkObj [("undefined_gate", jStr g)]
    | .ok bs =>
      return Json.mkObj [("branches", Json.arr (bs.map (fun b =>
        Json.mkObj [("cregs", jCregs b.cregs), ("p", jFloat (Circ.normSq Driver.C02.nsqF b.state).re)])).toArray)]
  | _ => throw s!"unknown op {op}"

end Driver.C19
