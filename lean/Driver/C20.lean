import Driver.Util
import CirqVerif.Model.C20
namespace Driver.C20
open Lean Driver CirqVerif.C20

def pJob (j : Json) : R Job := do return { tag := ← natF j "tag", reps := ← natF j "reps" }

def jEv : Ev → Json
  | .nextJob n => Json.arr #[jStr "next_job", jNat n]
  | .start t r => Json.arr #[jStr "start", jNat t, jNat r]
  | .result t => Json.arr #[jStr "result", jNat t]
  | .halt => Json.arr #[jStr "end", jStr "ok"]
  | .raised => Json.arr #[jStr "end", jStr "error"]

def pReq (s : String) : R Req :=
  match s with
  | "CPJ" => .ok .createProgramAndJob | "CJ" => .ok .createJob | "GR" => .ok .getResult
  | _ => .error s!"bad req {s}"
def reqName : Req → String | .createProgramAndJob => "CPJ" | .createJob => "CJ" | .getResult => "GR"

def pFault (s : String) : R Fault :=
  match s with
  | "ok" => .ok .none | "break_before" => .ok .breakBefore | "break_after" => .ok .breakAfter | "fatal" => .ok .fatal
  | _ => .error s!"bad fault {s}"

def handle (op : String) (j : Json) : R Json := do
  match op with
  | "collector" =>
    let conc ← natF j "concurrency"
    let budget := match optF j "budget" with | some b => (asInt b).toOption | none => none
    let source ← listF (asList pJob) j "source"
    let sched ← listF (fun x => do let l ← asArr x; return (← asStr (l.getD 0 Json.null), ← asNat (l.getD 1 Json.null))) j "schedule"
    let (s0, ev0) := initC conc budget source
    let mut s := s0
    let mut out : List Json := [jList jEv ev0]
    for (kind, tag) in sched do
      let r := if kind == "c" then complete conc s tag else fail s tag
      match r with
      | some (s', evs) => s := s'; out := out ++ [jList jEv evs]
      | none => out := out ++ [Json.null]
    return Json.mkObj [("segments", Json.arr out.toArray), ("running", jList jNat (s.running.map (·.tag))),
      ("delivered", jList jNat s.delivered), ("halted", jBool s.halted), ("failed", jBool s.failed)]
  | "client" =>
    let p ← boolF j "program_exists"
    let jb ← boolF j "job_exists"
    let faults ← listF (fun x => do pFault (← asStr x)) j "faults"
    let jobFirst := match optF j "job_first" with | some (Json.bool true) => true | _ => false
    let c := faults.foldl (if jobFirst then exchangeJobFirst retryTable else exchange retryTable)
      { server := { program := p, job := jb, jobsCreated := 0 }, state := .running .createProgramAndJob }
    let st := match c.state with
      | .running r => "running:" ++ reqName r | .done => "done" | .raisedStreamError => "StreamError" | .raisedFatal => "fatal"
    return Json.mkObj [("sent", jList (fun r => jStr (reqName r)) c.sent), ("state", jStr st), ("jobs_created", jNat c.server.jobsCreated)]
  | _ => throw s!"unknown op {op}"

end Driver.C20
