import Driver.Util
import CirqVerif.Model.C16
/-! line-protocol handler for C16 -/
namespace Driver.C16
open Lean Driver CirqVerif.C16

def handle (op : String) (j : Json) : R Json := do
  match op with
  | "pack" =>
    let bits ← listF asBool j "bits"
    return jList jNat (pack bits)
  | "unpack" =>
    let bytes ← listF asNat j "bytes"
    let count ← natF j "count"
    return jList jBool (unpack bytes count)
  | "encode_key" =>
    -- rows: (repetitions * instances) x qubits
    let rows ← listF (asList asBool) j "rows"
    let nq ← natF j "nq"
    return jList (jList jNat) (encodeKey nq rows)
  | "decode_key" =>
    let packed ← listF (asList asNat) j "packed"
    let reps ← natF j "reps"
    return jList (jList jBool) (decodeKey reps packed)
  | "intern_all" =>
    let table ← listF asStr j "table"
    let cs ← listF asStr j "constants"
    let r := internAll table cs
    return Json.mkObj [("table", jList jStr r.1), ("indices", jList jNat r.2)]
  | _ => throw s!"unknown op {op}"

end Driver.C16
