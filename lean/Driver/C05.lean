import Driver.Util
import CirqVerif.Model.C05
import CirqVerif.Model.C05Concat
namespace Driver.C05
open Lean Driver CirqVerif.C05

def pOp (j : Json) : R Op := do
  return { id := ← natF j "id", qubits := ← listF asNat j "q", mkeys := ← listF asNat j "m", ckeys := ← listF asNat j "c" }

def pMop (j : Json) : R Mop := do
  match optF j "op" with
  | some o => return .op (← pOp o)
  | none => return .mom (← listF pOp j "mom")

def pStrategy (s : String) : R Strategy :=
  match s with
  | "earliest" => .ok .earliest | "new" => .ok .new | "inline" => .ok .inline
  | "new_then_inline" => .ok .newThenInline | "latest" => .ok .latest
  | _ => .error s!"bad strategy {s}"

def errName : Err → String | .value => "ValueError" | .index => "IndexError" | .type => "TypeError"

def sortNat (l : List Nat) : List Nat := l.toArray.qsort (· < ·) |>.toList
def jMoments (c : Circuit) : Json := jList (fun (m : Moment) => jList jNat (sortNat (m.map (·.id)))) c
def jOptNat : Option Nat → Json | some n => jNat n | none => Json.null

def pCircuit (j : Json) : R Circuit := asList (asList pOp) j

def pair2 (f : Json → R α) (g : Json → R β) (x : Json) : R (α × β) := do
  let l ← asArr x
  return (← f (l.getD 0 Json.null), ← g (l.getD 1 Json.null))

/-- parse a mutating call -/
def pCall (call : String) (j : Json) : R (Option Call) := do
  match call with
  | "new" => return some (.new (← listF pMop j "mops") (← pStrategy (← strF j "strategy")))
  | "append" => return some (.append (← listF pMop j "mops") (← pStrategy (← strF j "strategy")))
  | "insert" => return some (.insert (← intF j "index") (← listF pMop j "mops") (← pStrategy (← strF j "strategy")))
  | "insert_into_range" => return some (.insertIntoRange (← listF pOp j "ops") (← intF j "start") (← intF j "end"))
  | "batch_remove" => return some (.batchRemove (← listF (pair2 asInt pOp) j "items"))
  | "batch_replace" =>
    let items ← listF (fun x => do
      let l ← asArr x
      return ((← asInt (l.getD 0 Json.null)), (← pOp (l.getD 1 Json.null)), (← pOp (l.getD 2 Json.null)))) j "items"
    return some (.batchReplace items)
  | "batch_insert_into" => return some (.batchInsertInto (← listF (pair2 asInt (asList pOp)) j "items"))
  | "batch_insert" => return some (.batchInsert (← listF (pair2 asInt (asList pMop)) j "items"))
  | "clear" => return some (.clear (← listF asNat j "qubits") (← listF asInt j "indices"))
  | "setitem" => return some (.setItem (← intF j "index") (← listF pOp j "moment"))
  | "delitem" => return some (.delItem (← intF j "index"))
  | "imul" => return some (.imul (← intF j "n"))
  | _ => return none

/-- one call of a history; returns new state and the JSON return value -/
def stepCall (st : CState) (j : Json) : R (Except Err (CState × Json)) := do
  let call ← strF j "call"
  if let some c ← pCall call j then
    return (applyCall st c).map (fun r => (r.1, match r.2 with | some k => jNat k | none => Json.null))
  match call with
  | "q_all_qubits" => return .ok (st, jList jNat (sortNat (allQubits st.moments)))
  | "q_mkeys" => return .ok (st, jList jNat (sortNat (allMkeys st.moments)))
  | "q_next" =>
    let qs ← listF asNat j "qubits"; let s ← natF j "start"
    match optF j "max_distance" with
    | some d => return .ok (st, jOptNat (nextMomentWithin st.moments qs s ((asNat d).toOption.getD 0)))
    | none => return .ok (st, jOptNat (nextMomentOperatingOn st.moments qs s))
  | "q_prev" =>
    let qs ← listF asNat j "qubits"
    let e := match optF j "end" with | some e => (asNat e).toOption.getD st.moments.length | none => st.moments.length
    match optF j "max_distance" with
    | some d => return .ok (st, jOptNat (prevMomentWithin st.moments qs e ((asNat d).toOption.getD 0)))
    | none => return .ok (st, jOptNat (prevMomentOperatingOn st.moments qs e))
  | "q_earliest" =>
    let o ← pOp (← field j "op")
    let e := match optF j "end" with | some e => (asNat e).toOption.getD st.moments.length | none => st.moments.length
    return .ok (st, jNat (earliestAvailable st.moments o e))
  | _ => throw s!"unknown call {call}"

def runHistory (calls : List Json) : R (List Json) := do
  let mut st : CState := {}
  let mut outs : List Json := []
  for c in calls do
    match ← stepCall st c with
    | .ok (st', ret) =>
      st := st'
      outs := outs ++ [Json.mkObj [("ret", ret), ("moments", jMoments st.moments)]]
    | .error e =>
      outs := outs ++ [jErr (errName e)]
      break
  return outs

/-- property-level specification of one `insert`-like call, evaluated on the implementation's
before/after circuits -/
def specInsert (j : Json) : R Json := do
  let before ← pCircuit (← field j "before")
  let after ← pCircuit (← field j "after")
  let inserted ← listF pMop j "inserted"
  let k ← natF j "k"
  let allowShare ← boolF j "allow_share_at_k"
  let chk ← boolF j "check_order"
  let insOps : List Op := inserted.flatMap (fun m => match m with | .op o => [o] | .mom m => m)
  let wf := circuitWF after
  let conserve := sortNat ((allOps after).map (·.id)) == sortNat ((allOps before ++ insOps).map (·.id))
  -- existing among themselves
  let exPairs := before.zipIdx.flatMap (fun (m, i) => m.flatMap (fun a =>
      (before.drop (i + 1)).flatten.map (fun b => (a, b))))
  let ordExisting := orderedPairs after exPairs
  -- inserted among themselves (flattened order; ops of one inserted Moment are simultaneous)
  let tagged : List (Nat × Op) := inserted.zipIdx.flatMap (fun (m, i) => match m with
    | .op o => [(i, o)] | .mom mm => mm.map (fun o => (i, o)))
  let insPairs := tagged.zipIdx.flatMap (fun ((ia, a), pos) =>
      (tagged.drop (pos + 1)).filterMap (fun (ib, b) => if ia ≠ ib then some (a, b) else none))
  let ordInserted := orderedPairs after insPairs
  let beforeK := (before.take k).flatten
  let afterK := (before.drop k).flatten
  let ordAfterPrefix := orderedPairs after (beforeK.flatMap (fun e => insOps.map (fun x => (e, x))))
  -- with several operations and EARLIEST an inserted operation may share the moment at the insertion point with what was
  -- there, but it still may not end up behind a conflicting operation that came after the insertion point
  let ordBeforeSuffix := if allowShare then notAfterPairs after (insOps.flatMap (fun x => afterK.map (fun e => (x, e))))
    else orderedPairs after (insOps.flatMap (fun x => afterK.map (fun e => (x, e))))
  return Json.mkObj [("wf", jBool wf), ("conserve", jBool conserve), ("ord_existing", jBool (!chk || ordExisting)),
    ("ord_inserted", jBool (!chk || ordInserted)), ("ord_after_prefix", jBool (!chk || ordAfterPrefix)),
    ("ord_before_suffix", jBool (!chk || ordBeforeSuffix))]

/-- the same predicates for calls that place several groups: every inserted item carries the boundary `lo` (everything in
earlier moments of `before` stays before it), `hi` (everything from that moment of `before` on stays after it) and whether it
may share a moment with the suffix (`EARLIEST` with several operations) -/
def specPlace (j : Json) : R Json := do
  let before ← pCircuit (← field j "before")
  let after ← pCircuit (← field j "after")
  let items ← listF (fun it => do
    return ((← natF it "lo"), (← natF it "hi"), (← boolF it "share"), (← pMop (← field it "mop")))) j "inserted"
  let chk ← boolF j "check_order"
  let opsOf (m : Mop) : List Op := match m with | .op o => [o] | .mom mm => mm
  let insOps : List Op := items.flatMap (fun it => opsOf it.2.2.2)
  let wf := circuitWF after
  let conserve := sortNat ((allOps after).map (·.id)) == sortNat ((allOps before ++ insOps).map (·.id))
  let exPairs := before.zipIdx.flatMap (fun (m, i) => m.flatMap (fun a =>
      (before.drop (i + 1)).flatten.map (fun b => (a, b))))
  let ordExisting := orderedPairs after exPairs
  -- (index of the item, its boundary, may it share a moment with the suffix, operation)
  let tagged : List (Nat × Nat × Bool × Op) := items.zipIdx.flatMap (fun (it, i) => (opsOf it.2.2.2).map (fun o => (i, it.1, it.2.2.1, o)))
  -- items of one group keep their order; an item of an earlier group stays before the later groups unless it is one of several
  -- operations inserted with EARLIEST, which may have landed in the moment at (or after) its insertion point
  let insPairs := tagged.zipIdx.flatMap (fun ((ia, la, sa, a), pos) =>
      (tagged.drop (pos + 1)).filterMap (fun (ib, lb, _, b) => if ia ≠ ib ∧ (la = lb ∨ !sa) then some (a, b) else none))
  let ordInserted := orderedPairs after insPairs
  let ordAfterPrefix := items.all (fun it =>
    orderedPairs after ((before.take it.1).flatten.flatMap (fun e => (opsOf it.2.2.2).map (fun x => (e, x)))))
  let ordBeforeSuffix := items.all (fun it =>
    let ps := (opsOf it.2.2.2).flatMap (fun x => (before.drop it.2.1).flatten.map (fun e => (x, e)))
    if it.2.2.1 then notAfterPairs after ps else orderedPairs after ps)
  return Json.mkObj [("wf", jBool wf), ("conserve", jBool conserve), ("ord_existing", jBool (!chk || ordExisting)),
    ("ord_inserted", jBool (!chk || ordInserted)), ("ord_after_prefix", jBool (!chk || ordAfterPrefix)),
    ("ord_before_suffix", jBool (!chk || ordBeforeSuffix))]

def handle (op : String) (j : Json) : R Json := do
  match op with
  | "history" => return jList id (← runHistory (← listF pure j "calls"))
  | "spec_insert" => specInsert j
  | "spec_place" => specPlace j
  | "concat" =>
    let cs ← listF pCircuit j "circuits"
    let a ← match (← strF j "align") with
      | "left" => pure Align.left | "right" => pure Align.right | "first" => pure Align.first
      | x => throw s!"bad align {x}"
    return jMoments (concatRagged a cs)
  | "zip" =>
    let cs ← listF pCircuit j "circuits"
    let a ← match (← strF j "align") with
      | "left" => pure Align.left | "right" => pure Align.right | "first" => pure Align.first
      | x => throw s!"bad align {x}"
    match zipCircuits a cs with
    | .ok c => return jMoments c
    | .error e => return Json.str (errName e)
  | "wf" => return jBool (circuitWF (← pCircuit (← field j "circuit")))
  | _ => throw s!"unknown op {op}"

end Driver.C05
