import Driver.Util
import CirqVerif.Model.Sim
import CirqVerif.Base.CFloat
namespace Driver.C01
open Lean Driver CirqVerif

def pC (j : Json) : R CFloat := do
  let l ← asArr j
  return ⟨← pFloat (l.getD 0 Json.null), ← pFloat (l.getD 1 Json.null)⟩

def jC (c : CFloat) : Json := Json.arr #[jFloat c.re, jFloat c.im]

def pOp (j : Json) : R (ArrOp CFloat) := do
  return { matrix := (← listF pC j "m").toArray, axes := ← listF asNat j "axes" }

def handle (op : String) (j : Json) : R Json := do
  match op with
  | "run" =>
    let shape ← listF asNat j "shape"
    let init ← listF pC j "init"
    let ops ← listF pOp j "ops"
    let cuts := match optF j "cuts" with | some c => (asList asNat c).toOption.getD [] | none => []
    let out := runArr shape init.toArray ops
    -- states after each requested number of operations (moment boundaries)
    let states := cuts.map (fun k => runArr shape init.toArray (ops.take k))
    return Json.mkObj [("final", jList jC out.toList), ("states", jList (fun (a : Array CFloat) => jList jC a.toList) states)]
  | "unitary" =>
    -- columns of the circuit's matrix: run every basis state
    let shape ← listF asNat j "shape"
    let ops ← listF pOp j "ops"
    let n := shapeSize shape
    let cols := (List.range n).map (fun k =>
      runArr shape ((Array.replicate n (0 : CFloat)).set! k 1) ops)
    -- return row-major matrix
    let rows := (List.range n).map (fun r => cols.map (fun c => c.getD r 0))
    return jList (jList jC) rows
  | _ => throw s!"unknown op {op}"

end Driver.C01
