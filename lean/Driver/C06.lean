import Driver.Util
import CirqVerif.Model.C06
/-! line-protocol handler for C06 -/
namespace Driver.C06
open Lean Driver CirqVerif.C06

def pOps (j : Json) (k : String) : R (List TOp) :=
  listF (fun o => do return ({ id := ← natF o "id", wires := ← listF asNat o "wires" } : TOp)) j k

def handle (op : String) (j : Json) : R Json := do
  match op with
  | "same_order" => return jBool (sameDependencyOrder (← pOps j "a") (← pOps j "b"))
  | _ => throw s!"unknown op {op}"

end Driver.C06
