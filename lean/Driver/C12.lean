import Driver.Util
import CirqVerif.Model.C12
import CirqVerif.Model.C12Terminal
namespace Driver.C12
open Lean Driver CirqVerif.C12

def pKey (j : Json) : R Key := do return { path := ← listF asStr j "path", name := ← strF j "name" }
def jKey (k : Key) : Json := Json.mkObj [("path", jList jStr k.path), ("name", jStr k.name)]

def pPairs (f : Json → R α) (j : Json) : R (List (α × α)) := asList (fun x => do
  let l ← asArr x
  return (← f (l.getD 0 Json.null), ← f (l.getD 1 Json.null))) j

partial def pNode (j : Json) : R Node := do
  match optF j "op" with
  | some o =>
    let mk ← (match optF o "mkey" with | some k => do pure (some (← pKey k)) | none => pure none : R (Option Key))
    let conds ← listF (fun c => do return (← pKey (← field c "key"), ← intF c "index")) o "conds"
    return .op (← natF o "id") (← listF asNat o "q") mk conds false
  | none =>
    let s ← field j "sub"
    let body ← listF (asList pNode) s "body"
    let repIds ← (match optF s "rep_ids" with | some r => do pure (some (← asList asStr r)) | none => pure none : R (Option (List String)))
    let sconds ← (match optF s "conds" with
      | some cs => asList (fun c => do return (← pKey (← field c "key"), ← intF c "index")) cs
      | none => pure [] : R (List (Key × Int)))
    return .sub (.mk body (← intF s "reps") (← pPairs asNat (← field s "qmap")) (← pPairs asStr (← field s "kmap")) repIds (← listF asStr s "parent_path")) sconds

def jFlat (o : FlatOp) : Json := Json.mkObj [
  ("id", jNat o.id), ("q", jList jNat o.qubits),
  ("mkey", match o.mkey with | some k => jKey k | none => Json.null),
  ("conds", jList (fun (c : Key × Int) => Json.mkObj [("key", jKey c.1), ("index", jInt c.2)]) o.conds),
  ("inverted", jBool o.inverted)]

def handle (op : String) (j : Json) : R Json := do
  match op with
  | "unroll" =>
    let moments ← listF (asList pNode) j "moments"
    return jList jFlat (unrollCircuit 8 moments)
  | "terminal" =>
    let moments ← listF (asList pNode) j "moments"
    let r := measurementsTerminal 8 moments
    return Json.mkObj [("all", jBool r.1), ("any", jBool r.2)]
  | "shapes" =>
    let moments ← listF (asList pNode) j "moments"
    return jList (fun (r : Key × Nat × Nat) => Json.mkObj [("key", jKey r.1), ("instances", jNat r.2.1), ("width", jNat r.2.2)]) (recordShapes 8 moments)
  | "mkeys" =>
    let n ← pNode (← field j "node")
    match n with
    | .sub c _ => return jList jKey (coMkeys 8 c)
    | _ => return jList jKey []
  | _ => throw s!"unknown op {op}"

end Driver.C12
