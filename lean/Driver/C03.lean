import Driver.Util
import CirqVerif.Spec.GateDocs
import CirqVerif.Spec.GateDocs2
import CirqVerif.Base.CFloat
namespace Driver.C03
open Lean Driver CirqVerif CirqVerif.GateDocs

/-- the elementary functions of the documentation, on floats -/
def envF : Env Float CFloat where
  I := CFloat.I
  half := ⟨0.5, 0⟩
  isq2 := ⟨1 / Float.sqrt 2, 0⟩
  ph := CFloat.phase
  cosπ := fun a => ⟨Float.cos (CFloat.pi * a), 0⟩
  sinπ := fun a => ⟨Float.sin (CFloat.pi * a), 0⟩
  cis := CFloat.cis
  cos := fun a => ⟨Float.cos a, 0⟩
  sin := fun a => ⟨Float.sin a, 0⟩
  sqrt := fun a => ⟨Float.sqrt a, 0⟩
  halfA := 0.5
  twoA := 2
  oneA := 1

def jC (c : CFloat) : Json := Json.arr #[jFloat c.re, jFloat c.im]
def jM (m : M CFloat) : Json := jList (jList jC) m

def gate (name : String) (p : List Float) : R (M CFloat) :=
  let g (i : Nat) : Float := p.getD i 0
  match name with
  | "xpow" => .ok (xpow envF (g 0) (g 1))
  | "ypow" => .ok (ypow envF (g 0) (g 1))
  | "zpow" => .ok (zpow envF (g 0) (g 1))
  | "hpow" => .ok (hpow envF (g 0) (g 1))
  | "rx" => .ok (rx envF (g 0))
  | "ry" => .ok (ry envF (g 0))
  | "rz" => .ok (rz envF (g 0))
  | "czpow" => .ok (czpow envF (g 0) (g 1))
  | "cxpow" => .ok (cxpow envF (g 0) (g 1))
  | "swappow" => .ok (swappow envF (g 0) (g 1))
  | "iswappow" => .ok (iswappow envF (g 0) (g 1))
  | "xxpow" => .ok (xxpow envF (g 0) (g 1))
  | "yypow" => .ok (yypow envF (g 0) (g 1))
  | "zzpow" => .ok (zzpow envF (g 0) (g 1))
  | "ms" => .ok (ms envF (g 0))
  | "fsim" => .ok (fsim envF (g 0) (g 1))
  | "phasedfsim" => .ok (phasedfsim envF (g 0) (g 1) (g 2) (g 3) (g 4))
  | "phasedx" => .ok (phasedx envF (g 0) (g 1) (g 2))
  | "phasedxz" => .ok (phasedxz envF (g 0) (g 1) (g 2))
  | "phasediswap" => .ok (phasediswap envF (g 0) (g 1))
  | "cczpow" => .ok (cczpow envF (g 0) (g 1))
  | "ccxpow" => .ok (ccxpow envF (g 0) (g 1))
  | "cswap" => .ok cswap
  | "diag" => .ok (diagGate envF p)
  | "globalphase" => .ok (globalPhase envF (g 0))
  | "identity" => .ok (eye (g 0).toUInt64.toNat)
  | "gpi" => .ok (gpi envF (g 0))
  | "gpi2" => .ok (gpi2 envF (g 0))
  | "ionq_ms" => .ok (ionqMS envF (g 0) (g 1) (g 2))
  | "ionq_zz" => .ok (ionqZZ envF (g 0))
  | _ => .error s!"unknown gate {name}"

def kraus (name : String) (p : List Float) : R (List (M CFloat)) :=
  let g (i : Nat) : Float := p.getD i 0
  match name with
  | "bit_flip" => .ok (bitFlip envF (g 0))
  | "phase_flip" => .ok (phaseFlip envF (g 0))
  | "amplitude_damp" => .ok (amplitudeDamp envF (g 0))
  | "phase_damp" => .ok (phaseDamp envF (g 0))
  | "asymmetric_depolarize" => .ok (asymDepolarize envF (g 0) (g 1) (g 2))
  | "generalized_amplitude_damp" => .ok (genAmplitudeDamp envF (g 0) (g 1))
  | "reset" => .ok reset
  | _ => .error s!"unknown channel {name}"

def envF2 : Env2 Float CFloat where
  toEnv := envF
  ratA := fun p q => p.toFloat / q.toFloat
  ratR := fun p q => ⟨p.toFloat / q.toFloat, 0⟩
  scaleA := fun a p q => a * p.toFloat / q.toFloat

def pM (j : Json) : R (M CFloat) := asList (asList (fun z => do
  match ← asArr z with
  | [a, b] => return (⟨← pFloat a, ← pFloat b⟩ : CFloat)
  | _ => throw "complex number expected")) j

/-- size-parameterised families: integer arguments in "ints", real ones in "params" -/
def gate2 (name : String) (ns : List Nat) (p : List Float) : R (M CFloat) :=
  let g (i : Nat) : Float := p.getD i 0
  let n (i : Nat) : Nat := ns.getD i 0
  match name with
  | "qudit_z" => .ok (quditZ envF2 (n 0) (g 0) (g 1))
  | "qudit_x" => .ok (quditX envF2 (n 0) (g 0) (g 1))
  | "qft" => .ok (qft envF2 (n 0) (n 1 == 1))
  | "phase_gradient" => .ok (phaseGradient envF2 (n 0) (g 0))
  | "qubit_permutation" => .ok (qubitPermutation ns)
  | "boolean_hamiltonian" => .ok (booleanHamiltonian envF2 (g 0) ns)
  | "givens" => .ok (givens envF2 (g 0))
  | "riswap" => .ok (riswap envF2 (g 0))
  | "cphase" => .ok (cphase envF2 (g 0))
  | "identity_shape" => .ok (eye (n 0))
  | "cypow" => .ok (cypow envF2 (g 0) (g 1))
  | "ccypow" => .ok (ccypow envF2 (g 0) (g 1))
  | "pauli_interaction" => .ok (pauliInteraction envF2 (n 0) (n 1 == 1) (n 2) (n 3 == 1) (g 0))
  | _ => .error s!"unknown gate {name}"

def kraus2 (name : String) (ns : List Nat) (p : List Float) (j : Json) : R (List (M CFloat)) := do
  let g (i : Nat) : Float := p.getD i 0
  let n (i : Nat) : Nat := ns.getD i 0
  match name with
  | "depolarize" => return depolarize envF2 (g 0) (n 0)
  | "reset" => return resetD (n 0)
  | "measure" => return measureProjectors (n 0)
  | "pauli_mixture" =>
    let strs ← listF (asList asNat) j "strings"
    return pauliMixture envF2 (strs.zip p)
  | "uniform_superposition" => return [[uniformSuperposition envF2 (n 0) (n 1)]]
  | "parallel" =>
    let sub ← listF pM j "sub"
    return [parallel (sub.headD []) (n 0)]
  | "state_preparation" =>
    let psi ← listF pM j "sub"
    return statePreparation ((psi.headD []).headD [])
  | "mixed_unitary" =>
    let sub ← listF pM j "sub"
    return mixedUnitary envF2 (p.zip sub)
  | "random_gate" =>
    let sub ← listF pM j "sub"
    return randomGate envF2 (g 0) sub (n 0)
  | _ => throw s!"unknown channel {name}"

def handle (op : String) (j : Json) : R Json := do
  match op with
  | "gate" => return jM (← gate (← strF j "name") (← listF pFloat j "params"))
  | "kraus" => return jList jM (← kraus (← strF j "name") (← listF pFloat j "params"))
  | "gate2" => return jM (← gate2 (← strF j "name") (← listF asNat j "ints") (← listF pFloat j "params"))
  | "kraus2" => return jList jM (← kraus2 (← strF j "name") (← listF asNat j "ints") (← listF pFloat j "params") j)
  | _ => throw s!"unknown op {op}"

end Driver.C03
