import Driver.Util
import CirqVerif.Model.C10
namespace Driver.C10
open Lean Driver CirqVerif.C10

def pRat (j : Json) : R Rat := do
  let l ← asArr j
  let n ← asInt (l.getD 0 Json.null); let d ← asNat (l.getD 1 Json.null)
  return (n : Rat) / (d : Rat)

def jRat (q : Rat) : Json := Json.arr #[jInt q.num, jNat q.den]

def pParams (j : Json) : R Params := asList (fun x => do
  let l ← asArr x
  return (← asStr (l.getD 0 Json.null), ← pRat (l.getD 1 Json.null))) j

partial def pSweep (j : Json) : R Sweep := do
  let k ← strF j "k"
  match k with
  | "unit" => return .unit
  | "empty" => return .empty
  | "points" => return .points (← strF j "key") (← listF pRat j "vals")
  | "linspace" => return .linspace (← strF j "key") (← pRat (← field j "start")) (← pRat (← field j "stop")) (← natF j "length")
  | "list" => return .list (← listF pParams j "rs")
  | "product" => return .product (← pSweep (← field j "a")) (← pSweep (← field j "b"))
  | "zip" => return .zip (← pSweep (← field j "a")) (← pSweep (← field j "b"))
  | "zip_longest" => return .zipLongest (← pSweep (← field j "a")) (← pSweep (← field j "b"))
  | "concat" => return .concat (← pSweep (← field j "a")) (← pSweep (← field j "b"))
  | _ => throw s!"bad sweep kind {k}"

def jParams (p : Params) : Json := jList (fun (kv : String × Rat) => Json.arr #[jStr kv.1, jRat kv.2]) p

partial def pExpr (j : Json) : R Expr := do
  let k ← strF j "k"
  match k with
  | "num" => return .num (← pRat (← field j "v"))
  | "sym" => return .sym (← strF j "n")
  | "add" => return .add (← pExpr (← field j "a")) (← pExpr (← field j "b"))
  | "mul" => return .mul (← pExpr (← field j "a")) (← pExpr (← field j "b"))
  | _ => throw s!"bad expr kind {k}"

partial def jExpr : Expr → Json
  | .num q => Json.mkObj [("k", jStr "num"), ("v", jRat q)]
  | .sym n => Json.mkObj [("k", jStr "sym"), ("n", jStr n)]
  | .add a b => Json.mkObj [("k", jStr "add"), ("a", jExpr a), ("b", jExpr b)]
  | .mul a b => Json.mkObj [("k", jStr "mul"), ("a", jExpr a), ("b", jExpr b)]

def optInt (j : Json) (k : String) : Option Int := match optF j k with | some x => (asInt x).toOption | none => none

def handle (op : String) (j : Json) : R Json := do
  match op with
  | "sweep" =>
    let s ← pSweep (← field j "sweep")
    let idxs ← listF asInt j "indices"
    let slices ← listF (fun x => do return (optInt x "start", optInt x "stop", (optInt x "step").getD 1)) j "slices"
    return Json.mkObj [
      ("len", jNat (len s)), ("keys", jList jStr (keys s)), ("tuples", jList jParams (tuples s)),
      ("items", jList (fun i => match getItem s i with | .ok p => jOk (jParams p) | .error _ => jErr "IndexError") idxs),
      ("slices", jList (fun (sl : Option Int × Option Int × Int) => jList jParams (getSlice s sl.1 sl.2.1 sl.2.2)) slices)]
  | "resolve" =>
    let r ← listF (fun x => do
      let l ← asArr x
      return (← asStr (l.getD 0 Json.null), ← pExpr (l.getD 1 Json.null))) j "resolver"
    let e ← pExpr (← field j "expr")
    let recursive ← boolF j "recursive"
    if recursive then
      match resolveRec r (r.length + 2) [] e with
      | some v => return jOk (jExpr v)
      | none => return jErr "RecursionError"
    else return jOk (jExpr (subst r e))
  | "compose" =>
    let pR := fun (k : String) => listF (fun x => do
      let l ← asArr x
      return (← asStr (l.getD 0 Json.null), ← pExpr (l.getD 1 Json.null))) j k
    let r1 ← pR "r1"
    let r2 ← pR "r2"
    let c := compose r1 r2
    -- the composed resolver as a function: distinct keys in order of first occurrence with the value `lookup` returns
    let ks := (c.map (·.1)).eraseDups
    return jList (fun k => Json.arr #[jStr k, match lookup c k with | some e => jExpr e | none => Json.null]) ks
  | _ => throw s!"unknown op {op}"

end Driver.C10
