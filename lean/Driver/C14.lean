import Driver.Util
import CirqVerif.Base.Pauli
namespace Driver.C14
open Lean Driver CirqVerif.Pauli

def pStr (j : Json) : R PStr := do
  return { k := ← natF j "k", ps := (← listF asNat j "ps").map ofStrInt }

def jStr' (s : PStr) : Json := Json.mkObj [("k", jNat s.k), ("ps", jList (fun p => jNat (toStrInt p)) s.ps)]

def handle (op : String) (j : Json) : R Json := do
  match op with
  | "mul" => return jStr' ((← pStr (← field j "a")).mul (← pStr (← field j "b")))
  | "commutes" => return jBool (commutesList (← pStr (← field j "a")).ps (← pStr (← field j "b")).ps)
  | _ => throw s!"unknown op {op}"

end Driver.C14
