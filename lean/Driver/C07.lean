import Driver.Util
import CirqVerif.Model.C07
import CirqVerif.Model.C07Timesteps
import Driver.C05
/-! line-protocol handler for C07 -/
namespace Driver.C07
open Lean Driver CirqVerif.C07

def pEvent (j : Json) : R Event := do
  match optF j "swap" with
  | some s =>
    let l ← asList asNat s
    return .swap (l.getD 0 0) (l.getD 1 0)
  | none => return .op (← natF j "id") (← listF asNat j "physical")

def handle (op : String) (j : Json) : R Json := do
  match op with
  | "replay" =>
    let l2p ← listF asNat j "l2p"
    let n := l2p.length
    -- the inverse array of the initial mapping
    let p2l := (List.range n).map (fun p => (l2p.idxOf? p).getD 0)
    let evs ← listF pEvent j "events"
    let r := replay { l2p := l2p, p2l := p2l } evs
    return Json.mkObj [
      ("ops", jList (fun (o : LOp) => Json.mkObj [("id", jNat o.id), ("qubits", jList jNat o.qubits)]) r.1),
      ("l2p", jList jNat r.2.l2p), ("p2l", jList jNat r.2.p2l)]
  | "timesteps" =>
    let ops ← listF Driver.C05.pOp j "ops"
    let s := runTS ops
    let ids (l : List (List CirqVerif.C05.Op)) : Json := jList (fun (m : List CirqVerif.C05.Op) => jList jNat (m.map (·.id))) l
    return Json.mkObj [("two", ids s.two), ("single", ids s.single)]
  | _ => throw s!"unknown op {op}"

end Driver.C07
