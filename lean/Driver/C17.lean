import Driver.Util
import Driver.C01
import CirqVerif.Spec.Vendor
/-! line-protocol handler for C17: interpret vendor job payloads with the vendors' documented gate definitions -/
namespace Driver.C17
open Lean Driver CirqVerif CirqVerif.Vendor CirqVerif.Qasm

/-- one gate application: family ("qis" | "native" | "aqt"), name, qubit axes, angle parameters -/
def gateOp (j : Json) : R (Option (ArrOp CFloat)) := do
  let fam ← strF j "family"
  let name ← strF j "name"
  let qs ← listF asNat j "qs"
  let ps ← listF pFloat j "params"
  let m : Option (Array CFloat) := match fam with
    | "qis" => qisMatrix floatTrig (⟨0, 1⟩ : CFloat) name (ps.getD 0 0)
    | "native" => nativeMatrix name (ps.take 2) (ps.getD 2 0)
    | "pauliexp" => some (pauliExpMatrix name (ps.getD 0 0))      -- name = the term string, params = [time * coefficient]
    | "aqt" => aqtMatrix name (ps.getD 0 0) (ps.getD 1 0)
    | _ => none
  return m.map (fun mm => { matrix := mm, axes := qs })

def handle (op : String) (j : Json) : R Json := do
  match op with
  | "unitary" =>
    let nq ← natF j "nq"
    let gates ← listF gateOp j "gates"
    match gates.findIdx? (·.isNone) with
    | some k => return Json.mkObj [("undefined_gate", jNat k)]
    | none =>
      let ops := gates.filterMap id
      let n := 2 ^ nq
      let cols := (List.range n).map (fun k => runArr (List.replicate nq 2) ((Array.replicate n (0 : CFloat)).set! k 1) ops)
      let rows := (List.range n).map (fun r => cols.map (fun c => c.getD r 0))
      return Json.mkObj [("matrix", jList (jList Driver.C01.jC) rows)]
  | "le_bits" =>
    let n ← natF j "n"
    let vs ← listF asNat j "values"
    return jList (fun v => jList jNat (leBits n v)) vs
  | _ => throw s!"unknown op {op}"

end Driver.C17
