import Driver.Util
import Driver.C01
import CirqVerif.Spec.Circuit
namespace Driver.C02
open Lean Driver CirqVerif CirqVerif.Circ

def nsqF (z : CFloat) : CFloat := ⟨z.normSq, 0⟩
def negl (z : CFloat) : Bool := z.re.abs < 1e-12 && z.im.abs < 1e-12

def pCond (j : Json) : R Cond := do
  let k ← strF j "key"
  let i := match optF j "index" with | some x => (asInt x).toOption.getD (-1) | none => -1
  match optF j "bitmask_kind" with
  | none => return .key k i
  | some _ =>
    let target ← natF j "target"
    let equal ← boolF j "equal"
    let mask := match optF j "mask" with | some m => (asNat m).toOption | none => none
    let dims ← listF asNat j "dims"
    return .bitmask k i target equal mask dims

partial def pOp (j : Json) : R (Op CFloat) := do
  let kind ← strF j "kind"
  match kind with
  | "u" => return .unitary (← listF Driver.C01.pC j "m").toArray (← listF asNat j "axes")
  | "meas" =>
    let cms ← listF (fun c => do
      return ({ positions := ← listF asNat c "positions",
                matrix := ← listF (asList (fun x => do return (⟨← pFloat x, 0⟩ : CFloat))) c "matrix" } : Confusion CFloat)) j "confusion"
    return .measure (← strF j "key") (← listF asNat j "axes") (← listF asBool j "invert") cms
  | "cc" => return .controlled (← listF pCond j "conds") (← pOp (← field j "op"))
  | "kraus" =>
    let ks ← listF (fun k => do return (← asList Driver.C01.pC k).toArray) j "ks"
    return .kraus ks (← listF asNat j "axes")
  | "pmeas" =>
    let ks ← listF (fun k => do return (← asList Driver.C01.pC k).toArray) j "projs"
    return .pmeasure (← strF j "key") ks (← listF asNat j "axes")
  | "reset" => return .reset (← listF asNat j "axes")
  | _ => throw s!"unknown op kind {kind}"

def jRecords (r : Records) : Json :=
  Json.arr (r.map (fun (k, v) => Json.arr #[jStr k, jList (jList jNat) v])).toArray

def handle (op : String) (j : Json) : R Json := do
  match op with
  | "dist" =>
    let shape ← listF asNat j "shape"
    let init ← listF Driver.C01.pC j "init"
    let ops ← listF pOp j "ops"
    let bs := run nsqF negl shape init.toArray ops
    -- one entry per branch: records, probability (= cw · ‖ψ‖²); `rho` = Σ cw |ψ⟩⟨ψ| on request
    let branches := bs.map (fun b =>
      Json.mkObj [("records", jRecords b.records), ("p", jFloat ((b.cw * (normSq nsqF b.state)).re))])
    let wantRho := match optF j "rho" with | some (Json.bool true) => true | _ => false
    if wantRho then
      let n := shapeSize shape
      let rho := (List.range n).map (fun r => (List.range n).map (fun c =>
        bs.foldl (fun acc b => acc + b.cw * (b.state.getD r 0 * (b.state.getD c 0).conj)) (0 : CFloat)))
      return Json.mkObj [("branches", Json.arr branches.toArray), ("rho", jList (jList Driver.C01.jC) rho)]
    return Json.mkObj [("branches", Json.arr branches.toArray)]
  | "dm" =>
    -- density-matrix evolution Σ K ρ K† (polynomial; no measurement records)
    let shape ← listF asNat j "shape"
    let rho ← listF Driver.C01.pC j "rho"
    let ops ← listF pOp j "ops"
    let out := runDM CFloat.conj shape rho.toArray ops
    let n := shapeSize shape
    return Json.mkObj [("rho", jList (fun r => jList (fun c => Driver.C01.jC (out.getD (r * n + c) 0)) (List.range n)) (List.range n))]
  | _ => throw s!"unknown op {op}"

end Driver.C02
