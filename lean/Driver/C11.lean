import Driver.Util
import CirqVerif.Model.C11
/-! line-protocol handler for C11 -/
namespace Driver.C11
open Lean Driver CirqVerif.C11

partial def pVal (j : Json) : R Val := do
  match j with
  | Json.str s => return .atom s
  | _ =>
    if let some a := optF j "p" then
      let l ← asArr a
      return .pair (← pVal (l.getD 0 Json.null)) (← pVal (l.getD 1 Json.null))
    if let some a := optF j "o" then
      let l ← asArr a
      return .obj (← asStr (l.getD 0 Json.null)) (← pVal (l.getD 1 Json.null))
    if let some a := optF j "s" then
      return .shared (← pVal a)
    throw "bad value"

def handle (op : String) (j : Json) : R Json := do
  match op with
  | "skeleton" =>
    let v ← pVal (← field j "value")
    let e := toJson v
    let ok := readJson e == some v
    return Json.mkObj [("skeleton", jList (fun (p : Bool × Nat) => Json.arr #[jBool p.1, jNat p.2]) (skeleton e)), ("roundtrip", jBool ok)]
  | _ => throw s!"unknown op {op}"

end Driver.C11
