import Driver.Util
import CirqVerif.Model.C18
namespace Driver.C18
open Lean Driver CirqVerif.Digits CirqVerif.C18

def errName : Err → String
  | .lenMismatch => "ValueError" | .digitRange => "ValueError" | .inconsistent => "ValueError"
  | .leftover => "ValueError" | .zeroDiv => "ZeroDivisionError"

def rerrName : RErr → String
  | .repeatedKey => "ValueError" | .shapeMismatch => "ValueError" | .fold e => errName e

def rows (j : Json) : R (List Row) := asList (asList asNat) j
def recs (j : Json) : R Records := asList (asList (asList asNat)) j

def handle (op : String) (j : Json) : R Json := do
  match op with
  | "bits_to_int" =>
    let bits ← listF asNat j "bits"
    return jOk (jNat (bitsToInt (bits.map (· ≠ 0))))
  | "int_to_bits" =>
    let v ← natF j "val"; let n ← natF j "n"
    return jOk (jList (fun b => jNat (if b then 1 else 0)) (intToBits v n))
  | "digits_to_int" =>
    let ds ← listF asInt j "digits"; let bs ← listF asInt j "bases"
    match digitsToInt ds bs with
    | .ok v => return jOk (jInt v)
    | .error e => return jErr (errName e)
  | "int_to_digits" =>
    let v ← natF j "val"; let bs ← listF asNat j "bases"
    match intToDigits bs v with
    | .ok ds => return jOk (jList jNat ds)
    | .error e => return jErr (errName e)
  | "int_to_digits_uniform" =>
    let v ← natF j "val"; let n ← natF j "n"; let b ← natF j "base"
    match intToDigitsUniform v n b with
    | .ok ds => return jOk (jList jNat ds)
    | .error e => return jErr (errName e)
  | "measurements" =>
    let r ← recs (← field j "records"); let inst ← natF j "instances"
    match measurements inst r with
    | .ok ms => return jOk (jList (jList jNat) ms)
    | .error e => return jErr (rerrName e)
  | "records_of_measurements" =>
    let ms ← rows (← field j "rows")
    return jOk (jList (jList (jList jNat)) (recordsOfMeasurements ms))
  | "dataframe" =>
    let ms ← rows (← field j "rows")
    return jOk (jList jNat (ms.map dataframeCell))
  | "histogram" =>
    let ms ← rows (← field j "rows")
    match optF j "bases" with
    | none => return jOk (jList (fun (p : Nat × Nat) => jList jNat [p.1, p.2]) (histogramBits ms))
    | some b =>
      let bs ← asList asNat b
      match histogramBase bs ms with
      | .ok h => return jOk (jList (fun (p : Nat × Nat) => jList jNat [p.1, p.2]) h)
      | .error e => return jErr (rerrName e)
  | "multi_histogram" =>
    let cols ← asList rows (← field j "cols"); let reps ← natF j "reps"
    return jOk (jList (fun (p : List Nat × Nat) => Json.arr #[jList jNat p.1, jNat p.2])
      (multiHistogram cols reps))
  | "add" =>
    let a ← recs (← field j "a"); let b ← recs (← field j "b")
    let sa ← listF asNat j "shape_a"; let sb ← listF asNat j "shape_b"
    match addRecords (sa.getD 0 0, sa.getD 1 0) (sb.getD 0 0, sb.getD 1 0) a b with
    | .ok r => return jOk (jList (jList (jList jNat)) r)
    | .error e => return jErr (rerrName e)
  | "pack_bits" =>
    let bits ← listF asNat j "bits"
    return jOk (jStr (hexOfBytes (packBits (bits.map (· ≠ 0)))))
  | "unpack_bits" =>
    let bytes ← listF asNat j "bytes"; let n ← natF j "count"
    return jOk (jList (fun b => jNat (if b then 1 else 0)) (unpackBits bytes n))
  | "bitstring" =>
    let vals ← listF asNat j "vals"
    return jOk (jStr (bitstring vals))
  | _ => throw s!"unknown op {op}"

end Driver.C18
