import Driver.Util
import Driver.C01
import CirqVerif.Model.C08
namespace Driver.C08
open Lean Driver CirqVerif CirqVerif.C08

def sortLists (l : List (List Nat)) : List (List Nat) :=
  (l.toArray.qsort (fun a b => decide (a < b))).toList

def handle (op : String) (j : Json) : R Json := do
  match op with
  | "cv_expand" =>
    let p ← listF (asList asNat) j "pos"
    return jList (jList jNat) (sortLists (expandPoS p))
  | "cv_and" =>
    let a ← listF (asList asNat) j "a"; let b ← listF (asList asNat) j "b"
    return jList (jList jNat) (sortLists (andSoP a b))
  | "cv_validate" =>
    let shape ← listF asNat j "shape"
    match optF j "pos" with
    | some p => return jBool (validatePoS (← asList (asList asNat) p) shape)
    | none => return jBool (validateSoP (← listF (asList asNat) j "sop") shape)
  | "controlled_matrix" =>
    -- control spec as an explicit list of allowed control tuples (sum of products) or product of sums
    let cdims ← listF asNat j "cdims"; let tdims ← listF asNat j "tdims"
    let u ← listF Driver.C01.pC j "u"
    let sat : List Nat → Bool ← (match optF j "pos" with
      | some p => do let pp ← asList (asList asNat) p; pure (satPoS pp)
      | none => do let ss ← listF (asList asNat) j "sop"; pure (satSoP ss))
    let U : Mat CFloat := matOfArray tdims u.toArray
    let M := controlledMat sat cdims.length U
    let idxs := allIdx (cdims ++ tdims)
    return jList (fun r => jList (fun c => Driver.C01.jC (M r c)) idxs) idxs
  | _ => throw s!"unknown op {op}"

end Driver.C08
