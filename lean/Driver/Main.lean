import Driver.C18
import Driver.C05
import Driver.C01
import Driver.C03
import Driver.C08
import Driver.C02
import Driver.C14
import Driver.C10
import Driver.C12
import Driver.C20
import Driver.C19
import Driver.C16
import Driver.C17
import Driver.C11
import Driver.C15
import Driver.C06
import Driver.C07
open Lean Driver

def dispatch (j : Json) : R Json := do
  let p ← strF j "p"
  let op ← strF j "op"
  match p with
  | "C18" => Driver.C18.handle op j
  | "C05" => Driver.C05.handle op j
  | "C01" => Driver.C01.handle op j
  | "C03" => Driver.C03.handle op j
  | "C08" => Driver.C08.handle op j
  | "C02" => Driver.C02.handle op j
  | "C14" => Driver.C14.handle op j
  | "C10" => Driver.C10.handle op j
  | "C12" => Driver.C12.handle op j
  | "C20" => Driver.C20.handle op j
  | "C19" => Driver.C19.handle op j
  | "C16" => Driver.C16.handle op j
  | "C17" => Driver.C17.handle op j
  | "C11" => Driver.C11.handle op j
  | "C15" => Driver.C15.handle op j
  | "C06" => Driver.C06.handle op j
  | "C07" => Driver.C07.handle op j
  | _ => throw s!"unknown property {p}"

partial def loop (h : IO.FS.Stream) (out : IO.FS.Stream) : IO Unit := do
  let line ← h.getLine
  if line.isEmpty then return ()
  let res := match Json.parse line with
    | .ok j => (match dispatch j with
        | .ok v => v
        | .error e => Json.mkObj [("driver_error", Json.str e)])
    | .error e => Json.mkObj [("driver_error", Json.str s!"parse: {e}")]
  out.putStrLn res.compress
  loop h out

def main : IO Unit := do
  let out ← IO.getStdout
  loop (← IO.getStdin) out
  out.flush
